package c12

import (
	"bytes"
	"context"
	"fmt"
	"runtime"
	"sort"
	"strconv"
	"strings"
	"sync"
	"sync/atomic"
	"testing"
	"testing/synctest"
	"time"

	"github.com/hydraide/hydraide/app/core/hydra/swamp/treasure"
	"github.com/hydraide/hydraide/app/name"
	"github.com/hydraide/hydraide/app/verifhook"
	hydrapb "github.com/hydraide/hydraide/sdk/go/hydraidego/v3/hydraidepbgo"
	"github.com/vmihailenco/msgpack/v5"
	"google.golang.org/protobuf/types/known/timestamppb"

	"verifharness/rig"
)

const (
	swampName = "c12/q/main"
	anchorKey = "zz-anchor"
	hookDelay = time.Millisecond
	waveGap   = 10 * time.Millisecond
	capHook   = "gw.patch.cap.afterCount"
)

// ---- schedule description ------------------------------------------------------------------

type recSpec struct {
	Key     string `json:"k"`
	St      string `json:"st"`
	G       string `json:"g"`
	NoRel   bool   `json:"norel,omitempty"`   // rel == "" instead of "x" (matches the relempty cap)
	Expired bool   `json:"expired,omitempty"` // ExpiredAt one minute before the run (PatchExpired candidates)
}

// capSpec: the one Cap every cap-bearing request of the schedule carries.
// Filter kinds: st (st == "claimed"), stin (st in [claimed run]), scope (g == "a" AND st == "claimed"),
// relempty (rel IS_EMPTY: the field is absent or "" - a filter the empty map satisfies).
type capSpec struct {
	Kind string `json:"kind"`
	Max  int32  `json:"max"`
}

// keyPatch is one TreasurePatch of a PatchTreasures batch: SET <the field Cap.Filter reads> = St on Key.
type keyPatch struct {
	Key string `json:"key"`
	St  string `json:"st"`
}

// op kinds: patch (PatchTreasures + Cap), pex (PatchExpiredTreasures + Cap), shm (ShiftMatchingTreasures + Cap),
// release (PatchTreasures without Cap that can only move records out of the filter).
type op struct {
	Kind    string     `json:"kind"`
	Patches []keyPatch `json:"patches,omitempty"`
	HowMany int32      `json:"howmany,omitempty"`
	Scoped  bool       `json:"scoped,omitempty"` // pex: Filters narrows the selection to records that will enter Cap.Filter
	Force   bool       `json:"force,omitempty"`  // patch: delayed 1 virtual ms between its count and the cap mutex
	Create  bool       `json:"create,omitempty"` // patch: CreateIfNotExist (keys n.. do not exist yet)
	Seed    *seedSpec  `json:"seed,omitempty"`   // patch+Create: InitialMsgpackOnCreate; nil = the default empty map
}

// seedSpec is the body a created record starts from.
type seedSpec struct {
	St  string `json:"st"`
	G   string `json:"g"`
	Rel string `json:"rel"`
}

func (sd *seedSpec) body() body {
	if sd == nil {
		return body{}
	}
	return body{St: sd.St, G: sd.G, Rel: sd.Rel}
}

type sched struct {
	Recs    []recSpec `json:"recs"`
	Cap     capSpec   `json:"cap"`
	Ops     []op      `json:"ops"`
	Exact   bool      `json:"exact"`   // every key has at most one writer: responses determine the final state
	Sampler bool      `json:"sampler"` // a reader samples the match count under the cap mutex while the batches run
	Tag     string    `json:"tag,omitempty"`
}

func (o *op) capBearing() bool { return o.Kind != "release" }

// field is the body field Cap.Filter decides on (the one the patches of a schedule write).
func (c capSpec) field() string {
	if c.Kind == "relempty" {
		return "rel"
	}
	return "st"
}

// enter / leave: values of that field that put a record into / out of the filter.
func (c capSpec) enter() string {
	if c.Kind == "relempty" {
		return ""
	}
	return "claimed"
}

func (c capSpec) leave() string {
	if c.Kind == "relempty" {
		return "x"
	}
	return "done"
}

// matchesVal: does a record whose decisive field has value v (and whose g is g) match Cap.Filter.
func (c capSpec) matchesVal(v, g string) bool {
	switch c.Kind {
	case "st":
		return v == "claimed"
	case "stin":
		return v == "claimed" || v == "run"
	case "scope":
		return g == "a" && v == "claimed"
	case "relempty":
		return v == ""
	}
	return false
}

func (c capSpec) val(b body) string {
	if c.Kind == "relempty" {
		return b.Rel
	}
	return b.St
}

func (c capSpec) matchesBody(b body) bool { return b.Bad == "" && c.matchesVal(c.val(b), b.G) }

// with returns b with the decisive field set to v.
func (c capSpec) with(b body, v string) body {
	if c.Kind == "relempty" {
		b.Rel = v
	} else {
		b.St = v
	}
	return b
}

func strLeg(path string, op hydrapb.Relational_Operator, v string) *hydrapb.TreasureFilter {
	return &hydrapb.TreasureFilter{Operator: op, BytesFieldPath: &path, CompareValue: &hydrapb.TreasureFilter_StringVal{StringVal: v}}
}

func (c capSpec) pb() *hydrapb.Cap {
	g := &hydrapb.FilterGroup{Logic: hydrapb.FilterLogic_AND}
	st := "st"
	switch c.Kind {
	case "st":
		g.Filters = []*hydrapb.TreasureFilter{strLeg("st", hydrapb.Relational_EQUAL, "claimed")}
	case "stin":
		g.Filters = []*hydrapb.TreasureFilter{{Operator: hydrapb.Relational_STRING_IN, BytesFieldPath: &st, StringInVals: []string{"claimed", "run"}}}
	case "scope":
		g.Filters = []*hydrapb.TreasureFilter{strLeg("g", hydrapb.Relational_EQUAL, "a"), strLeg("st", hydrapb.Relational_EQUAL, "claimed")}
	case "relempty":
		rel := "rel"
		g.Filters = []*hydrapb.TreasureFilter{{Operator: hydrapb.Relational_IS_EMPTY, BytesFieldPath: &rel}}
	}
	return &hydrapb.Cap{Filter: g, MaxMatching: c.Max}
}

// ---- bodies --------------------------------------------------------------------------------

type body struct {
	Ver int64  `json:"ver"`
	Pv  int64  `json:"pv,omitempty"`
	St  string `json:"st"`
	G   string `json:"g"`
	Rel string `json:"rel"` // "" when the field is absent or empty
	Cs  []int  `json:"cs,omitempty"`
	Bad string `json:"bad,omitempty"`
}

func mp(v any) []byte {
	var buf bytes.Buffer
	enc := msgpack.NewEncoder(&buf)
	enc.SetSortMapKeys(true)
	if err := enc.Encode(v); err != nil {
		panic(err)
	}
	return buf.Bytes()
}

func encodeBody(ver int64, st, g, rel string) []byte {
	return append([]byte{0xC7, 0x00}, mp(map[string]any{"ver": ver, "pv": int64(0), "st": st, "g": g, "rel": rel})...)
}

func toI64(v any) int64 {
	switch x := v.(type) {
	case int8:
		return int64(x)
	case int16:
		return int64(x)
	case int32:
		return int64(x)
	case int64:
		return x
	case uint8:
		return int64(x)
	case uint16:
		return int64(x)
	case uint32:
		return int64(x)
	case uint64:
		return int64(x)
	}
	return -999
}

func decodeBody(b []byte) body {
	if len(b) >= 2 && b[0] == 0xC7 && b[1] == 0x00 {
		b = b[2:]
	}
	var m map[string]any
	if err := msgpack.Unmarshal(b, &m); err != nil || m == nil {
		return body{Bad: fmt.Sprintf("undecodable body %x", b)}
	}
	out := body{Ver: toI64(m["ver"]), Pv: toI64(m["pv"])}
	out.St, _ = m["st"].(string)
	out.G, _ = m["g"].(string)
	out.Rel, _ = m["rel"].(string)
	for k := range m {
		if len(k) > 1 && k[0] == 'c' {
			if i, err := strconv.Atoi(k[1:]); err == nil {
				out.Cs = append(out.Cs, i)
			}
		}
	}
	sort.Ints(out.Cs)
	return out
}

// ---- recorded log --------------------------------------------------------------------------

type outcome struct {
	Key    string `json:"key"`
	Status string `json:"status"` // patch / pex: PatchResult status; shm: "SHIFTED"
	B      *body  `json:"b,omitempty"`
}

type event struct {
	Op         int       `json:"op"`
	Kind       string    `json:"kind"`
	Start      int64     `json:"start"`
	End        int64     `json:"end"`
	Err        string    `json:"err,omitempty"`
	Out        []outcome `json:"out,omitempty"`
	CapReached bool      `json:"capreached,omitempty"`
	HookHit    bool      `json:"hookhit,omitempty"`
	Done       bool      `json:"done"`
}

type sample struct {
	At    int64 `json:"at"`
	Count int   `json:"count"`
}

type runLog struct {
	Pre     map[string]body `json:"pre"`
	Events  []*event        `json:"events"`
	Samples []sample        `json:"samples,omitempty"`
	Post    map[string]body `json:"post"`
	Incon   string          `json:"incon,omitempty"`
	Panics  []string        `json:"panics,omitempty"`
	Order   string          `json:"order"`
}

// ---- driver --------------------------------------------------------------------------------

type opRun struct {
	ev     *event
	force  bool
	atHook func() // tells the driver that the delayed batch has reached the hook
}

var (
	seq        atomic.Int64
	othersLeft atomic.Int64 // requests other than the delayed batch that have not returned yet
	byGID      sync.Map
)

func gid() int64 {
	var buf [64]byte
	n := runtime.Stack(buf[:], false)
	f := strings.Fields(string(buf[:n]))
	if len(f) < 2 {
		return -1
	}
	id, _ := strconv.ParseInt(f[1], 10, 64)
	return id
}

func ts(v int64) *timestamppb.Timestamp { return timestamppb.New(time.Unix(0, v).UTC()) }

func token(opIdx, j int) int64 { return int64(1000*(opIdx+1) + j) }

type driver struct {
	r      *rig.Rig
	ctx    context.Context
	island uint64
	now    int64
	s      *sched
}

func (d *driver) exec(i int, o *op, ev *event) {
	gw := d.r.GW
	cp := d.s.Cap.pb()
	switch o.Kind {
	case "patch", "release":
		req := &hydrapb.PatchTreasuresRequest{IslandID: d.island, SwampName: swampName}
		if o.Kind == "patch" {
			req.Cap = cp
		}
		if o.Create {
			req.CreateIfNotExist = true
			if o.Seed != nil {
				req.InitialMsgpackOnCreate = mp(map[string]any{"st": o.Seed.St, "g": o.Seed.G, "rel": o.Seed.Rel})
			}
		}
		for j, p := range o.Patches {
			req.Patches = append(req.Patches, &hydrapb.TreasurePatch{Key: p.Key, Ops: []*hydrapb.PatchOp{
				{Op: hydrapb.PatchOp_SET, Path: "pv", Value: mp(token(i, j))}, {Op: hydrapb.PatchOp_SET, Path: d.s.Cap.field(), Value: mp(p.St)}}})
		}
		resp, err := gw.PatchTreasures(d.ctx, req)
		if err != nil || resp == nil || len(resp.GetResults()) != len(o.Patches) {
			ev.Err = fmt.Sprintf("error %v / malformed response", err)
			return
		}
		for _, res := range resp.GetResults() {
			ev.Out = append(ev.Out, outcome{Key: res.GetKey(), Status: res.GetStatus().String()})
		}
		ev.CapReached = resp.GetCapReached()
	case "pex":
		one := int64(1)
		req := &hydrapb.PatchExpiredTreasuresRequest{IslandID: d.island, SwampName: swampName, HowMany: o.HowMany, Cap: cp,
			Ops:  []*hydrapb.PatchOp{{Op: hydrapb.PatchOp_SET, Path: fmt.Sprintf("c%d", i), Value: mp(one)}, {Op: hydrapb.PatchOp_SET, Path: d.s.Cap.field(), Value: mp(d.s.Cap.enter())}},
			Meta: &hydrapb.PatchMeta{SetExpiredAt: ts(d.now + int64(time.Hour) + int64(i+1)*int64(time.Second))}}
		if o.Scoped {
			f := &hydrapb.FilterGroup{Logic: hydrapb.FilterLogic_AND, Filters: []*hydrapb.TreasureFilter{strLeg("st", hydrapb.Relational_EQUAL, "pending")}}
			if d.s.Cap.Kind == "scope" {
				f.Filters = append(f.Filters, strLeg("g", hydrapb.Relational_EQUAL, "a"))
			}
			req.Filters = f
		}
		resp, err := gw.PatchExpiredTreasures(d.ctx, req)
		if err != nil || resp == nil {
			ev.Err = fmt.Sprintf("error %v / nil response", err)
			return
		}
		for _, p := range resp.GetPatched() {
			oc := outcome{Key: p.GetKey(), Status: p.GetStatus().String()}
			if p.GetStatus() == hydrapb.PatchResult_PATCHED {
				b := decodeBody(p.GetNewMsgpack())
				oc.B = &b
			}
			ev.Out = append(ev.Out, oc)
		}
		ev.CapReached = resp.GetCapReached()
	case "shm":
		resp, err := gw.ShiftMatchingTreasures(d.ctx, &hydrapb.ShiftMatchingTreasuresRequest{IslandID: d.island, SwampName: swampName, IndexType: hydrapb.IndexType_KEY,
			HowMany: o.HowMany, Cap: cp, Filters: &hydrapb.FilterGroup{Filters: []*hydrapb.TreasureFilter{strLeg("st", hydrapb.Relational_EQUAL, "queued")}}})
		if err != nil || resp == nil {
			ev.Err = fmt.Sprintf("error %v / nil response", err)
			return
		}
		for _, t := range resp.GetTreasures() {
			b := decodeBody(t.GetBytesVal())
			ev.Out = append(ev.Out, outcome{Key: t.GetKey(), Status: "SHIFTED", B: &b})
		}
		ev.CapReached = resp.GetCapReached()
	}
}

func (d *driver) getAll() (map[string]body, error) {
	resp, err := d.r.GW.GetAll(d.ctx, &hydrapb.GetAllRequest{IslandID: d.island, SwampName: swampName})
	if err != nil || resp == nil {
		return nil, fmt.Errorf("GetAll: %v", err)
	}
	out := map[string]body{}
	for _, t := range resp.GetTreasures() {
		if t.GetKey() == anchorKey {
			continue
		}
		out[t.GetKey()] = decodeBody(t.GetBytesVal())
	}
	return out, nil
}

func runSched(t *testing.T, s *sched) *runLog {
	root := rig.TempRoot("c12")
	defer rig.RemoveAll(root)
	lg := &runLog{}
	// synctest.Test ends with t.FailNow() when the race detector reported something in the bubble;
	// races are counted, not judged, here: keep the Goexit away from the check's goroutine
	finished := make(chan struct{})
	go func() {
		defer close(finished)
		runBubble(t, s, lg, root)
	}()
	<-finished
	return lg
}

func runBubble(t *testing.T, s *sched, lg *runLog, root string) {
	synctest.Test(t, func(t *testing.T) {
		verifhook.Reset()
		verifhook.Set(capHook, func(...any) {
			v, ok := byGID.Load(gid())
			if !ok {
				return
			}
			r := v.(*opRun)
			r.ev.HookHit = true
			if !r.force {
				return
			}
			r.atHook()
			// Let every other request run first. A tree that counts under the cap mutex reaches
			// this point holding that mutex: a virtual sleep would then park a lock holder, the
			// requests queued behind it are not durably blocked and virtual time could never
			// advance. So: yield until the others have returned, with a spin budget as a stop (then
			// they are queued behind this request, which is the repaired behaviour). This only
			// shapes the schedule; nothing is decided by it.
			for spin := 0; spin < 2_000_000 && othersLeft.Load() > 0; spin++ {
				runtime.Gosched()
			}
		})
		seq.Store(0)
		r := rig.New(rig.Options{Root: root, CloseAfterIdle: 3600})
		defer func() {
			r.Stop()
			time.Sleep(2 * time.Minute)
			for _, p := range rig.InstallSentinel().Drain("panic") {
				lg.Panics = append(lg.Panics, p.Msg+" "+p.Attrs)
			}
		}()
		r.Register("c12/q/*", false, 3600, 1)
		d := &driver{r: r, ctx: context.Background(), island: rig.Island(swampName), s: s, now: time.Now().UnixNano()}
		incon := func(f string, a ...any) {
			if lg.Incon == "" {
				lg.Incon = fmt.Sprintf(f, a...)
			}
		}
		kvs := []*hydrapb.KeyValuePair{{Key: anchorKey, BytesVal: append([]byte{0xC7, 0x00}, mp(map[string]any{"anchor": int64(1), "rel": "x"})...)}}
		for i, rc := range s.Recs {
			rel := "x"
			if rc.NoRel {
				rel = ""
			}
			kv := &hydrapb.KeyValuePair{Key: rc.Key, BytesVal: encodeBody(int64(i+1), rc.St, rc.G, rel)}
			if rc.Expired {
				kv.ExpiredAt = ts(d.now - int64(time.Minute) + int64(i)*1000)
			}
			kvs = append(kvs, kv)
		}
		if resp, err := r.GW.Set(d.ctx, &hydrapb.SetRequest{Swamps: []*hydrapb.SwampRequest{{IslandID: d.island, SwampName: swampName, CreateIfNotExist: true, Overwrite: true, KeyValues: kvs}}}); err != nil || resp == nil {
			incon("seed Set failed: %v", err)
			return
		}
		for _, it := range []hydrapb.IndexType_Type{hydrapb.IndexType_EXPIRATION_TIME, hydrapb.IndexType_KEY} {
			if _, err := r.GW.GetByIndex(d.ctx, &hydrapb.GetByIndexRequest{IslandID: d.island, SwampName: swampName, IndexType: it, OrderType: hydrapb.OrderType_ASC, Limit: 1}); err != nil {
				incon("index warm-up failed: %v", err)
				return
			}
		}
		// Build the st / g field buckets now: a cold bucket build racing with writers dead-locks
		// (index lock vs record guard, reported by C11), which is not this property's subject. The
		// request has an indexed leg with candidates and a residual leg that never holds.
		stp, gp, never := "st", "g", "nobody"
		for _, f := range []*hydrapb.TreasureFilter{
			{Operator: hydrapb.Relational_STRING_IN, BytesFieldPath: &stp, StringInVals: []string{"pending", "claimed", "run", "queued", "done"}},
			{Operator: hydrapb.Relational_STRING_IN, BytesFieldPath: &gp, StringInVals: []string{"a", "b"}},
		} {
			resp, werr := r.GW.ShiftMatchingTreasures(d.ctx, &hydrapb.ShiftMatchingTreasuresRequest{IslandID: d.island, SwampName: swampName, IndexType: hydrapb.IndexType_KEY,
				Filters: &hydrapb.FilterGroup{Filters: []*hydrapb.TreasureFilter{f, strLeg("ver", hydrapb.Relational_EQUAL, never)}}})
			if werr != nil || len(resp.GetTreasures()) != 0 {
				incon("bucket warm-up failed: %v (%d records taken)", werr, len(resp.GetTreasures()))
				return
			}
		}
		var err error
		if lg.Pre, err = d.getAll(); err != nil {
			incon("%v", err)
			return
		}

		lg.Events = make([]*event, len(s.Ops))
		var mu sync.Mutex
		var order []string
		// The delayed batch starts alone; everybody else is released once it is parked at the hook
		// (between its count and the cap mutex), or has returned without reaching it.
		start, startForced, atHook := make(chan struct{}), make(chan struct{}), make(chan struct{})
		var atHookOnce sync.Once
		reached := func() { atHookOnce.Do(func() { close(atHook) }) }
		hasForced := false
		var running atomic.Int64
		othersLeft.Store(0)
		for i := range s.Ops {
			o := &s.Ops[i]
			ev := &event{Op: i, Kind: o.Kind}
			lg.Events[i] = ev
			running.Add(1)
			if !o.Force {
				othersLeft.Add(1)
			}
			gate := start
			if o.Force {
				gate, hasForced = startForced, true
			}
			go func() {
				defer func() {
					if o.Force {
						reached()
					}
					running.Add(-1)
					if !o.Force {
						othersLeft.Add(-1)
					}
					mu.Lock()
					ev.Done = true
					mu.Unlock()
				}()
				g := gid()
				byGID.Store(g, &opRun{ev: ev, force: o.Force, atHook: reached})
				defer byGID.Delete(g)
				<-gate
				ev.Start = seq.Add(1)
				d.exec(i, o, ev)
				ev.End = seq.Add(1)
				mu.Lock()
				order = append(order, strconv.Itoa(i))
				mu.Unlock()
			}()
		}
		if s.Sampler {
			// The sampler holds the swamp's own cap mutex while it counts, so no cap-bearing request
			// is between its decision and its save at a sampled instant.
			sw, serr := r.Zeus.GetHydra().SummonSwamp(d.ctx, d.island, name.Load(swampName))
			if serr != nil {
				incon("sampler: %v", serr)
				return
			}
			sw.BeginVigil()
			go func() {
				defer sw.CeaseVigil()
				<-start
				take := func() {
					sw.LockCapMu()
					n := sw.CountMatchingTreasures(func(tr treasure.Treasure) bool {
						raw, err := tr.GetContentByteArray()
						if err != nil || tr.GetKey() == anchorKey {
							return false
						}
						b := decodeBody(raw)
						return s.Cap.matchesBody(b)
					})
					at := seq.Add(1)
					sw.UnlockCapMu()
					mu.Lock()
					lg.Samples = append(lg.Samples, sample{At: at, Count: int(n)})
					mu.Unlock()
				}
				// bursts of samples while the batches run in parallel, and one burst at every quiescent
				// point of the next 2 virtual ms (the delayed batch resumes after 1 ms)
				for tick := 0; tick < 40; tick++ {
					for k := 0; k < 5; k++ {
						take()
						runtime.Gosched()
					}
					if running.Load() == 0 {
						break
					}
					time.Sleep(50 * time.Microsecond)
				}
				take()
			}()
		}
		synctest.Wait()
		progress.Add(1)
		if hasForced {
			close(startForced)
			<-atHook
		}
		close(start)
		synctest.Wait()
		time.Sleep(waveGap)
		synctest.Wait()
		progress.Add(1)
		mu.Lock()
		for _, ev := range lg.Events {
			if !ev.Done {
				incon("request %d (%s) has not returned at quiescence", ev.Op, ev.Kind)
			}
		}
		lg.Order = strings.Join(order, ",")
		mu.Unlock()
		if lg.Incon != "" {
			return
		}
		if lg.Post, err = d.getAll(); err != nil {
			incon("%v", err)
		}
	})
}
