package c12

import (
	"fmt"
	"os"
	"regexp"
	"runtime"
	"strings"
	"sync/atomic"
	"time"

	"verifharness/rig"
)

// progress is bumped by the driver whenever the bubble reaches a quiescent point.
var progress atomic.Int64

// watchdog runs outside the bubble. A request blocked on a sync.Mutex is not durably blocked, so
// a lock-order deadlock inside the engine shows up as synctest.Wait() never returning. After 3 s
// of wall time without progress the goroutine dump is examined: if every request goroutine of the
// bubble is parked on a mutex or on a record guard, and still is one second later, that is a
// deadlock (what decides is the dump, not the clock; the index walks that wait are the signature).
// Otherwise the watchdog keeps waiting; after 100 s it gives up (inconclusive). A deadlocked
// process cannot continue and exits after handing its result to the parent.
func watchdog(c *rig.Check, s *sched) (stop func()) {
	done := make(chan struct{})
	go func() {
		last, since := progress.Load(), time.Now()
		tick := time.NewTicker(200 * time.Millisecond)
		defer tick.Stop()
		for {
			select {
			case <-done:
				return
			case <-tick.C:
			}
			if p := progress.Load(); p != last {
				last, since = p, time.Now()
				continue
			}
			idle := time.Since(since)
			if idle < 3*time.Second {
				continue
			}
			// a deadlock is called only on a dump in which every request is parked on a lock or a
			// guard, seen twice one second apart; a slow or starved process keeps being waited for
			buf := make([]byte, 4<<20)
			buf = buf[:runtime.Stack(buf, true)]
			sig, what := classifyDump(string(buf))
			if sig != "" {
				time.Sleep(time.Second)
				buf2 := make([]byte, 4<<20)
				if sig2, _ := classifyDump(string(buf2[:runtime.Stack(buf2, true)])); sig2 != sig || progress.Load() != last {
					sig = ""
				}
			}
			if sig == "" && idle < 100*time.Second {
				continue
			}
			c.Case(rig.Dump(s), false)
			c.Seen("tags", s.Tag)
			if sig != "" {
				c.Count("sig "+sig, 1)
				c.Violate(sig, what, map[string]any{"sched": s, "dump": trimDump(string(buf))})
			} else {
				c.Inconclusive("no progress for 100 s of wall time and the goroutine dump is not a plain deadlock")
				fmt.Fprintln(os.Stderr, string(buf))
			}
			c.Finish()
			os.Exit(0)
		}
	}()
	return func() { close(done) }
}

var hydraFrame = regexp.MustCompile(`github\.com/hydraide/hydraide/app/[^\s(]+/([a-z0-9]+\.(?:\(\*?[A-Za-z]+\)\.)?[A-Za-z0-9_]+)`)

// classifyDump looks only at the goroutines that execute a request of the schedule. The signature
// names the index walks that wait for a record guard while they hold the index lock; everything
// else that is parked (writers that hold a guard and want an index lock, bystanders queued behind
// either) differs from run to run and goes into the description only.
func classifyDump(dump string) (sig, what string) {
	walkers, others := map[string]bool{}, map[string]bool{}
	requests, unexplained := 0, 0
	for _, g := range strings.Split(dump, "\n\n") {
		if !strings.Contains(g, "c11.(*driver).exec") && !strings.Contains(g, "c12.(*driver).exec") {
			continue
		}
		requests++
		head := g[:strings.Index(g+"\n", "\n")]
		var frames []string
		for _, m := range hydraFrame.FindAllStringSubmatch(g, -1) {
			frames = append(frames, strings.NewReplacer("(*", "", ")", "").Replace(m[1]))
		}
		first := func(skip ...string) string {
		next:
			for _, f := range frames {
				for _, s := range skip {
					if strings.HasPrefix(f, s) {
						continue next
					}
				}
				return f
			}
			return "?"
		}
		switch {
		case strings.Contains(head, "sleep"):
			// the claimer delayed at a hook
		case strings.Contains(head, "sync.Cond.Wait") && strings.Contains(g, "guard.(*guard).StartTreasureGuard"):
			f := first("guard.", "treasure.")
			if strings.HasPrefix(f, "beacon.") {
				walkers[strings.TrimPrefix(f, "beacon.beacon.")] = true
			} else {
				others["guard-wait in "+f] = true
			}
		case strings.Contains(head, "sync.Mutex.Lock") || strings.Contains(head, "sync.RWMutex"):
			others["lock-wait in "+first("guard.", "treasure.")+" < "+first("guard.", "treasure.", "beacon.")] = true
		default:
			unexplained++
		}
	}
	if requests == 0 || unexplained > 0 || len(walkers) == 0 {
		return "", ""
	}
	ws := sortedKeys(walkers)
	sig = "hang:lock-order:index-lock-then-guard:" + strings.Join(ws, ",")
	what = fmt.Sprintf("deadlock: %d requests never return. %v wait for a record guard while holding the index lock; the holders of those guards wait for that index lock: %v", requests, ws, sortedKeys(others))
	return sig, what
}

func trimDump(d string) string {
	var keep []string
	for _, g := range strings.Split(d, "\n\n") {
		if strings.Contains(g, "c11.(*driver).exec") {
			var ls []string
			for _, l := range strings.Split(g, "\n") {
				if !strings.HasPrefix(l, "\t") {
					ls = append(ls, l)
				}
			}
			keep = append(keep, strings.Join(ls, "\n"))
		}
	}
	out := strings.Join(keep, "\n\n")
	if len(out) > 12000 {
		out = out[:12000]
	}
	return out
}
