package c12

import (
	"testing"
)

// Minimal reproducers of findings of the C12 monitor (not part of TestCheck):
//
//	cd /verif/harness && GOFLAGS=-mod=mod GOPROXY=off go test -tags verif -run TestRepro -v ./c12/

func reportRepro(t *testing.T, s sched) {
	lg := runSched(t, &s)
	if lg.Incon != "" {
		t.Fatalf("inconclusive: %s", lg.Incon)
	}
	findings, _ := checkLog(&s, lg)
	for _, f := range findings {
		t.Errorf("%s: %s", f.sig, f.what)
	}
	for i, ev := range lg.Events {
		t.Logf("request %d %s: %+v capReached=%v hook=%v", i, ev.Kind, ev.Out, ev.CapReached, ev.HookHit)
	}
}

// TestReproPatchExpiredCapIgnoresRecordsWithoutExpiry: sequential, one request. One record already
// matches Cap.Filter (st == claimed) but carries no ExpiredAt; PatchExpired+Cap{Max=1} still
// claims an expired record: 2 records match afterwards. SelectExpiredForPatchWithCap counts the
// matching records among the members of the expiration index only (beacon.go), and a record
// without ExpiredAt is not a member. ShiftMatching+Cap on a time index has the same count.
func TestReproPatchExpiredCapIgnoresRecordsWithoutExpiry(t *testing.T) {
	reportRepro(t, sched{
		Cap:   capSpec{Kind: "st", Max: 1},
		Exact: true,
		Recs: []recSpec{{Key: "m", St: "claimed", G: "a"}, {Key: "e", St: "pending", G: "a", Expired: true},
			{Key: "q", St: "queued", G: "a"}},
		Ops: []op{{Kind: "pex", Scoped: true}},
	})
}

// TestReproCountThenLock: two PatchTreasures+Cap{Max=3} batches of three entering patches each;
// the first is parked (verifhook gw.patch.cap.afterCount) between its count and the cap mutex
// while the second runs: both start from count 0 and 6 records match afterwards
// (gateway_patch.go capPreCount counts before LockCapMu). Needs the hook to be deterministic.
func TestReproCountThenLock(t *testing.T) {
	reportRepro(t, fixedCases()[0])
}
