// C12 — cap-bearing operations never push the match count above the cap.
//
// Monitor: generated swamps with m <= Max records matching Cap.Filter, then 2-6 concurrent
// cap-bearing requests with the SAME Cap — PatchTreasures+Cap batches (patches that move records
// into the filter, out of it, keep them in, keep them out), PatchExpiredTreasures+Cap and
// ShiftMatchingTreasures+Cap — released at one virtual instant inside a synctest bubble on the
// real engine (race build). The premise of the property is respected by construction: the only
// requests without the Cap are "release" patches that can only move records OUT of the filter, and
// Cap.Filter reads body fields only. Forced schedules delay one PatchTreasures batch by one
// virtual millisecond at the verifhook point between its match count and the cap mutex.
//
// Oracle: count(records matching Cap.Filter) <= Max at quiescence after every schedule, and at
// every instant at which a sampling reader holds the swamp's own cap mutex; CAP_EXCEEDED only for
// patches that would move a record from not-matching to matching, and never while budget provably
// remained in every serial order; with one writer per key, every response agrees with the final
// state (PATCHED applied, CAP_EXCEEDED untouched), so the accepted transitions add up to post - pre.
package c12

import (
	"fmt"
	"hash/fnv"
	"os"
	"sort"
	"strconv"
	"strings"
	"testing"
	"time"

	"github.com/hydraide/hydraide/app/verifhook"

	"verifharness/rig"
)

type shard struct{ From, To int }

type witness struct {
	Sched sched   `json:"sched"`
	Log   *runLog `json:"log"`
}

type finding struct{ sig, what string }

// ---- generator -----------------------------------------------------------------------------

func gen(c *rig.Check, idx int) sched {
	r := c.Rand(idx)
	var s sched
	s.Cap = capSpec{Kind: []string{"st", "st", "stin", "scope", "scope", "relempty"}[r.IntN(6)], Max: int32(1 + r.IntN(6))}
	m := r.IntN(int(s.Cap.Max) + 1)
	if r.IntN(3) == 0 {
		m = int(s.Cap.Max) - r.IntN(2) // at or just below the cap
		if m < 0 {
			m = 0
		}
	}
	s.Exact = r.IntN(4) != 0
	s.Sampler = r.IntN(5) < 3
	var matching, pending, expired, queued []string
	add := func(prefix, st, g string, exp bool) string {
		k := fmt.Sprintf("%s%02d", prefix, len(s.Recs))
		s.Recs = append(s.Recs, recSpec{Key: k, St: st, G: g, Expired: exp})
		return k
	}
	for i := 0; i < m; i++ {
		st := "claimed"
		if s.Cap.Kind == "stin" && r.IntN(2) == 0 {
			st = "run"
		}
		matching = append(matching, add("m", st, "a", false))
		if s.Cap.Kind == "relempty" {
			s.Recs[len(s.Recs)-1].St, s.Recs[len(s.Recs)-1].NoRel = "pending", true
		}
	}
	g := func() string { return []string{"a", "a", "b"}[r.IntN(3)] }
	for i, n := 0, 5+r.IntN(8); i < n; i++ {
		pending = append(pending, add("p", "pending", g(), false))
	}
	for i, n := 0, r.IntN(7); i < n; i++ {
		expired = append(expired, add("e", "pending", g(), true))
	}
	for i, n := 0, 1+r.IntN(3); i < n; i++ {
		queued = append(queued, add("q", "queued", g(), r.IntN(2) == 0))
	}
	for i, n := 0, r.IntN(3); i < n; i++ {
		add("d", "done", g(), false)
	}

	used := map[string]bool{}
	pick := func(from []string) string {
		if len(from) == 0 {
			return ""
		}
		for try := 0; try < 8; try++ {
			k := from[r.IntN(len(from))]
			if !s.Exact || !used[k] {
				used[k] = true
				return k
			}
		}
		return ""
	}
	patchBatch := func(n int) op {
		o := op{Kind: "patch"}
		in := map[string]bool{}
		for len(o.Patches) < n {
			var kp keyPatch
			switch x := r.IntN(100); {
			case x < 64: // enter (or, on a g=b record under the scope cap, stay out)
				pool := pending
				if !s.Exact && r.IntN(4) == 0 {
					pool = expired
				}
				kp = keyPatch{Key: pick(pool), St: s.Cap.enter()}
				if s.Cap.Kind == "stin" && r.IntN(3) == 0 {
					kp.St = "run"
				}
			case x < 76: // leave
				kp = keyPatch{Key: pick(matching), St: s.Cap.leave()}
			case x < 88: // stay in
				kp = keyPatch{Key: pick(matching), St: s.Cap.enter()}
			default: // stay out
				kp = keyPatch{Key: pick(pending), St: []string{"pending", "done", "held"}[r.IntN(3)]}
				if s.Cap.Kind == "relempty" {
					kp.St = []string{"x", "y"}[r.IntN(2)]
				}
			}
			if kp.Key == "" || in[kp.Key] {
				if len(o.Patches) > 0 || n > 12 {
					break
				}
				n++
				continue
			}
			in[kp.Key] = true
			o.Patches = append(o.Patches, kp)
		}
		return o
	}
	// createBatch: PatchTreasures + Cap + CreateIfNotExist on keys that do not exist yet (and now and
	// then one that does), from a seed that already matches Cap.Filter, does not match it, or from
	// the default empty map; the ops keep / move the new record in or out of the filter.
	newKeys := 0
	createBatch := func(n int) op {
		o := op{Kind: "patch", Create: true}
		switch x := r.IntN(10); {
		case x < 4:
			o.Seed = &seedSpec{St: "claimed", G: "a", Rel: ""} // matches every cap shape
		case x < 7:
			o.Seed = &seedSpec{St: "pending", G: []string{"a", "b"}[r.IntN(2)], Rel: "x"}
		case x < 8:
			o.Seed = &seedSpec{St: "claimed", G: "b", Rel: "x"} // matches st / stin only
		}
		for len(o.Patches) < n {
			v := s.Cap.enter()
			if r.IntN(4) == 0 {
				v = s.Cap.leave()
			}
			if s.Cap.Kind != "relempty" && r.IntN(5) == 0 {
				v = "pending"
			}
			if r.IntN(8) == 0 {
				if k := pick(pending); k != "" {
					o.Patches = append(o.Patches, keyPatch{Key: k, St: v})
					continue
				}
			}
			newKeys++
			o.Patches = append(o.Patches, keyPatch{Key: fmt.Sprintf("n%02d", newKeys), St: v})
		}
		return o
	}
	s.Tag = "stress"
	if r.IntN(10) == 0 {
		// one batch alone: the four-cell rule and the budget arithmetic in their sequential form
		s.Tag = "single-batch"
		if r.IntN(2) == 0 {
			s.Ops = append(s.Ops, createBatch(2+r.IntN(5)))
		} else {
			s.Ops = append(s.Ops, patchBatch(3+r.IntN(5)))
		}
		return s
	}
	nb := 2 + r.IntN(5)
	creates := r.IntN(100) < 45
	for i := 0; i < nb; i++ {
		switch x := r.IntN(100); {
		case creates && x < 30:
			s.Ops = append(s.Ops, createBatch(1+r.IntN(4)))
		case x < 60 || i < 2:
			s.Ops = append(s.Ops, patchBatch(1+r.IntN(4)))
		case x < 85:
			s.Ops = append(s.Ops, op{Kind: "pex", HowMany: int32(r.IntN(4)), Scoped: r.IntN(5) != 0})
		default:
			s.Ops = append(s.Ops, op{Kind: "shm", HowMany: int32(r.IntN(3))})
		}
	}
	if r.IntN(4) == 0 && len(matching) > 0 {
		o := op{Kind: "release"}
		for n := 1 + r.IntN(2); n > 0; n-- {
			if k := pick(matching); k != "" && (len(o.Patches) == 0 || o.Patches[0].Key != k) {
				o.Patches = append(o.Patches, keyPatch{Key: k, St: s.Cap.leave()})
			}
		}
		if len(o.Patches) > 0 {
			s.Ops = append(s.Ops, o)
		}
	}
	if r.IntN(100) < 40 {
		s.Tag = "forced"
		if f := r.IntN(2); s.Ops[f].Kind == "patch" {
			s.Ops[f].Force = true
		} else {
			s.Ops[1-f].Force = true
		}
	}
	r.Shuffle(len(s.Ops), func(i, j int) { s.Ops[i], s.Ops[j] = s.Ops[j], s.Ops[i] })
	return s
}

// fixedCases: the interleaving the property text names.
func fixedCases() []sched {
	var out []sched
	for _, pre := range []int{0, 2} {
		s := sched{Cap: capSpec{Kind: "st", Max: 3}, Exact: true, Sampler: true, Tag: "fixed-count-then-lock"}
		for i := 0; i < pre; i++ {
			s.Recs = append(s.Recs, recSpec{Key: fmt.Sprintf("m%02d", i), St: "claimed", G: "a"})
		}
		for i := 0; i < 8; i++ {
			s.Recs = append(s.Recs, recSpec{Key: fmt.Sprintf("p%02d", i), St: "pending", G: "a"})
		}
		s.Recs = append(s.Recs, recSpec{Key: "q00", St: "queued", G: "a"})
		s.Ops = []op{
			{Kind: "patch", Force: true, Patches: []keyPatch{{"p00", "claimed"}, {"p01", "claimed"}, {"p02", "claimed"}}},
			{Kind: "patch", Patches: []keyPatch{{"p03", "claimed"}, {"p04", "claimed"}, {"p05", "claimed"}}},
		}
		out = append(out, s)
	}
	// patch batch against PatchExpired
	s := sched{Cap: capSpec{Kind: "scope", Max: 2}, Exact: true, Sampler: true, Tag: "fixed-patch-vs-pex"}
	for i := 0; i < 4; i++ {
		s.Recs = append(s.Recs, recSpec{Key: fmt.Sprintf("p%02d", i), St: "pending", G: "a"})
		s.Recs = append(s.Recs, recSpec{Key: fmt.Sprintf("e%02d", i), St: "pending", G: "a", Expired: true})
	}
	s.Recs = append(s.Recs, recSpec{Key: "q00", St: "queued", G: "a"})
	s.Ops = []op{
		{Kind: "patch", Force: true, Patches: []keyPatch{{"p00", "claimed"}, {"p01", "claimed"}}},
		{Kind: "pex", HowMany: 0, Scoped: true},
		{Kind: "shm", HowMany: 1},
	}
	out = append(out, s)
	// creates: five new records from a seed that already matches, one batch and two batches
	for _, two := range []bool{false, true} {
		for _, kind := range []string{"st", "relempty"} {
			c := sched{Cap: capSpec{Kind: kind, Max: 2}, Exact: true, Sampler: true, Tag: "fixed-create-matching-seed"}
			for i := 0; i < 4; i++ {
				c.Recs = append(c.Recs, recSpec{Key: fmt.Sprintf("p%02d", i), St: "pending", G: "a"})
			}
			c.Recs = append(c.Recs, recSpec{Key: "q00", St: "queued", G: "a"})
			var seed *seedSpec
			if kind == "st" {
				seed = &seedSpec{St: "claimed", G: "a", Rel: "x"}
			} // relempty: the default empty map already matches
			mk := func(from, to int) op {
				o := op{Kind: "patch", Create: true, Seed: seed}
				for i := from; i < to; i++ {
					o.Patches = append(o.Patches, keyPatch{Key: fmt.Sprintf("n%02d", i), St: c.Cap.enter()})
				}
				return o
			}
			if two {
				c.Ops = []op{mk(0, 3), mk(3, 5)}
			} else {
				c.Ops = []op{mk(0, 5)}
			}
			out = append(out, c)
		}
	}
	return out
}

// ---- offline oracle ------------------------------------------------------------------------

func countMatching(cp capSpec, m map[string]body) int {
	n := 0
	for _, b := range m {
		if cp.matchesBody(b) {
			n++
		}
	}
	return n
}

func checkLog(s *sched, lg *runLog) (out []finding, stats map[string]int) {
	stats = map[string]int{}
	seen := map[string]bool{}
	fail := func(sig, f string, a ...any) {
		if !seen[sig] {
			seen[sig] = true
			out = append(out, finding{sig, fmt.Sprintf(f, a...)})
		}
	}
	cp, max := s.Cap, int(s.Cap.Max)
	// the record a patch starts from: the stored one, or - for a key that does not exist in a
	// CreateIfNotExist batch - the seed; "existed" tells the two apart (a created record did not
	// match before, whatever its seed looks like: it was not there)
	startOf := func(o *op, key string) (b body, existed bool) {
		if b, ok := lg.Pre[key]; ok {
			return b, true
		}
		return o.Seed.body(), false
	}
	preMatch := func(key string) bool {
		b, ok := lg.Pre[key]
		return ok && cp.matchesBody(b)
	}
	postMatch := func(o *op, p keyPatch) bool {
		b, _ := startOf(o, p.Key)
		return cp.matchesBody(cp.with(b, p.St))
	}
	pre, post := countMatching(cp, lg.Pre), countMatching(cp, lg.Post)
	stats["pre_matching"], stats["post_matching"] = pre, post
	if pre > max {
		return nil, stats // premise "provided it did not exceed it before" (never generated)
	}

	// what the responses say was accepted into the filter (an over-estimate where a key has
	// several writers), per request kind
	accepted, enteredKinds := 0, map[string]int{}
	unknown := false
	for i, ev := range lg.Events {
		o := &s.Ops[i]
		if ev.Err != "" {
			unknown = true
			continue
		}
		n := 0
		for j, oc := range ev.Out {
			switch o.Kind {
			case "patch":
				p := o.Patches[j]
				if (oc.Status == "PATCHED" || oc.Status == "CREATED") && postMatch(o, p) && !(s.Exact && preMatch(p.Key)) {
					n++
				}
			case "pex":
				if oc.Status == "PATCHED" && oc.B != nil && cp.matchesBody(*oc.B) {
					n++
				}
			}
		}
		if n > 0 {
			if o.Create {
				enteredKinds["create"]++ // a CreateIfNotExist batch, named apart in the signature
			} else {
				enteredKinds[o.Kind]++
			}
		}
		accepted += n
		stats["accepted_into_filter"] += n
	}
	var ks []string
	for _, k := range []string{"create", "patch", "pex"} {
		switch {
		case enteredKinds[k] == 1:
			ks = append(ks, k)
		case enteredKinds[k] > 1:
			ks = append(ks, k+"+"+k)
		}
	}
	by := strings.Join(ks, "+")
	if by == "" {
		by = "nobody"
	}

	// O1 / O2: the count never exceeds the cap
	if post > max {
		fail("overshoot:at-quiescence:entered-by="+by, "Cap{%s, Max=%d}: %d records matched before the schedule, %d match after it (the responses report %d accepted transitions into the filter)", cp.Kind, max, pre, post, accepted)
	}
	worst := 0
	for _, sm := range lg.Samples {
		if sm.Count > worst {
			worst = sm.Count
		}
	}
	stats["cap_mutex_samples"] = len(lg.Samples)
	if worst > max {
		fail("overshoot:during-run:entered-by="+by, "Cap{%s, Max=%d}: a reader holding the swamp's cap mutex counted %d matching records while the schedule ran (%d before it)", cp.Kind, max, worst, pre)
	}

	// O3 / O4: CAP_EXCEEDED only for a not-matching -> matching patch, and only without budget
	for i, ev := range lg.Events {
		o := &s.Ops[i]
		if o.Kind != "patch" || ev.Err != "" {
			continue
		}
		for j, oc := range ev.Out {
			if oc.Status != "CAP_EXCEEDED" {
				stats["patch_"+oc.Status]++
				continue
			}
			stats["patch_CAP_EXCEEDED"]++
			p := o.Patches[j]
			start, _ := startOf(o, p.Key)
			switch {
			case !postMatch(o, p):
				fail("cap-exceeded:patch-cannot-enter-the-filter", "request %d: SET %s=%q on key %s (g=%s) was rejected CAP_EXCEEDED although the patched record does not match Cap{%s}", i, cp.field(), p.St, p.Key, start.G, cp.Kind)
			case s.Exact && preMatch(p.Key):
				fail("cap-exceeded:record-already-matching", "request %d: SET %s=%q on key %s was rejected CAP_EXCEEDED although the record matched Cap{%s} before and after (no other request writes that key)", i, cp.field(), p.St, p.Key, cp.Kind)
			case !unknown && pre+accepted < max:
				fail("cap-exceeded:budget-remained-in-every-order", "request %d: SET %s=%q on key %s was rejected CAP_EXCEEDED; %d records matched before the schedule and all requests together report %d accepted transitions into the filter, so fewer than Max=%d matched at every instant", i, cp.field(), p.St, p.Key, pre, accepted, max)
			}
		}
		if any := strings.Contains(fmt.Sprint(ev.Out), "CAP_EXCEEDED"); any != ev.CapReached {
			stats["capreached_flag_differs_from_statuses"]++
		}
	}

	// O5: with one writer per key the responses determine the final state
	if s.Exact && !unknown && lg.Post != nil {
		want := map[string]body{}
		for k, b := range lg.Pre {
			want[k] = b
		}
		gone := map[string]bool{}
		why := map[string]string{}
		for i, ev := range lg.Events {
			o := &s.Ops[i]
			for j, oc := range ev.Out {
				switch o.Kind {
				case "patch", "release":
					_, existed := startOf(o, oc.Key)
					switch {
					case oc.Status == "PATCHED" && existed, oc.Status == "CREATED" && !existed:
						b, _ := startOf(o, oc.Key)
						b = cp.with(b, o.Patches[j].St)
						b.Pv = token(i, j)
						want[oc.Key] = b
					case !existed:
						// a create that was not acknowledged as CREATED must leave no record behind
						if got, there := lg.Post[oc.Key]; there {
							fail("state-mismatch:patch:"+oc.Status+":record-created-anyway", "key %s: create request %d answered %s, but the record exists afterwards (%s=%q)", oc.Key, i, oc.Status, cp.field(), cp.val(got))
						}
					}
					why[oc.Key] = fmt.Sprintf("%s request %d answered %s", o.Kind, i, oc.Status)
				case "pex":
					if oc.Status == "PATCHED" {
						b := cp.with(want[oc.Key], cp.enter())
						b.Cs = append(append([]int(nil), b.Cs...), i)
						want[oc.Key] = b
					}
					why[oc.Key] = fmt.Sprintf("pex request %d answered %s", i, oc.Status)
				case "shm":
					gone[oc.Key] = true
					why[oc.Key] = fmt.Sprintf("shm request %d shifted it", i)
				}
			}
		}
		transitions := 0
		for k, w := range want {
			got, ok := lg.Post[k]
			kind := strings.SplitN(why[k]+" ", " ", 2)[0]
			switch {
			case gone[k] && ok:
				fail("state-mismatch:shm:shifted-record-still-there", "key %s: %s, but it is still in the swamp", k, why[k])
			case gone[k]:
				if preMatch(k) {
					transitions--
				}
			case !ok:
				fail("state-mismatch:"+kindOr(kind)+":record-gone", "key %s (%s) is gone after the schedule", k, why[k])
			case got.St != w.St || got.Rel != w.Rel || got.G != w.G || got.Pv != w.Pv || fmt.Sprint(got.Cs) != fmt.Sprint(w.Cs):
				st := strings.TrimSpace(why[k][strings.LastIndex(why[k], " ")+1:])
				fail("state-mismatch:"+kindOr(kind)+":"+st, "key %s: %s, so the record should be st=%s rel=%q g=%s pv=%d stamps=%v, but it is st=%s rel=%q g=%s pv=%d stamps=%v", k, why[k], w.St, w.Rel, w.G, w.Pv, w.Cs, got.St, got.Rel, got.G, got.Pv, got.Cs)
			default:
				a, b := preMatch(k), cp.matchesBody(got)
				if !a && b {
					transitions++
				}
				if a && !b {
					transitions--
				}
			}
		}
		stats["net_transitions"] = transitions
		if len(out) == 0 && transitions != post-pre {
			fail("accounting:transitions-do-not-add-up", "the responses imply a net change of %d matching records, the swamp went from %d to %d", transitions, pre, post)
		}
	}
	return out, stats
}

func kindOr(k string) string {
	if k == "" {
		return "untouched"
	}
	return k
}

func nontrivial(s *sched, lg *runLog) bool {
	// the cap binds (more attempted entries than budget) and two cap-bearing requests overlapped,
	// or the delayed batch really was parked between its count and the mutex
	attempts := 0
	for i := range s.Ops {
		o := &s.Ops[i]
		switch o.Kind {
		case "patch":
			for _, p := range o.Patches {
				start, ok := lg.Pre[p.Key]
				if !ok {
					start = o.Seed.body()
				}
				if s.Cap.matchesBody(s.Cap.with(start, p.St)) && !(ok && s.Cap.matchesBody(lg.Pre[p.Key])) {
					attempts++
				}
			}
		case "pex":
			for _, rc := range s.Recs {
				if rc.Expired {
					attempts++
				}
			}
		}
	}
	if attempts <= int(s.Cap.Max)-countMatching(s.Cap, lg.Pre) {
		return false
	}
	if len(s.Ops) == 1 {
		return true
	}
	for a := range lg.Events {
		for b := a + 1; b < len(lg.Events); b++ {
			ea, eb := lg.Events[a], lg.Events[b]
			if s.Ops[a].capBearing() && s.Ops[b].capBearing() && ea.Start < eb.End && eb.Start < ea.End {
				return true
			}
		}
	}
	for i, ev := range lg.Events {
		if s.Ops[i].Force && ev.HookHit {
			return true
		}
	}
	return false
}

func runOne(c *rig.Check, t *testing.T, s sched, verbose bool) (sigs []string) {
	lg := runSched(t, &s)
	key := rig.Dump(s)
	if lg.Incon != "" {
		c.Case(key, false)
		c.Inconclusive(lg.Incon)
		if verbose {
			t.Logf("inconclusive: %s", lg.Incon)
		}
		return nil
	}
	findings, stats := checkLog(&s, lg)
	c.Case(key, nontrivial(&s, lg))
	c.Sample(s)
	c.Seen("tags", s.Tag)
	c.Seen("cap_filters", s.Cap.Kind)
	h := fnv.New64a()
	_, _ = h.Write([]byte(key + "|" + lg.Order))
	c.Seen("interleavings", strconv.FormatUint(h.Sum64(), 16))
	c.Count("requests", int64(len(s.Ops)))
	c.Count("recovered_panics", int64(len(lg.Panics)))
	for k, v := range stats {
		if k != "pre_matching" && k != "post_matching" && k != "net_transitions" {
			c.Count(k, int64(v))
		}
	}
	for i, ev := range lg.Events {
		c.Seen("kinds", ev.Kind)
		if ev.Err != "" {
			c.Count("requests_with_error", 1)
		}
		if s.Ops[i].Force {
			c.Count("forced_cases", 1)
			if ev.HookHit {
				c.Count("forced_cases_hook_hit", 1)
			} else if len(findings) == 0 {
				c.Inconclusive("the delayed batch never reached " + capHook + " (hook not compiled in?)")
			}
		}
	}
	c.Count("hook "+capHook, verifhook.Hits(capHook))
	for _, f := range findings {
		c.Count("sig "+f.sig, 1)
		c.Violate(f.sig, f.what, witness{Sched: s, Log: lg})
		sigs = append(sigs, f.sig)
		if verbose {
			t.Logf("VIOLATION %s: %s", f.sig, f.what)
		}
	}
	return sigs
}

func TestCheck(t *testing.T) {
	c := rig.NewCheck(t, "C12", "exploration")
	defer c.Finish()
	c.Rule = "schedules = swamp with m <= Max records matching Cap.Filter (three filter shapes: st == claimed; st in [claimed run]; g == a AND st == claimed), pending / expired-pending / queued records, and 2-6 concurrent cap-bearing requests with the same Cap released at one virtual instant in a synctest bubble (race build): PatchTreasures+Cap batches of 1-4 keys covering all four (pre,post) cells, PatchExpired+Cap (scoped by Filters or not), ShiftMatching+Cap, sometimes a non-cap patch that moves records out of the filter; 10% single batches (sequential four-cell / budget arithmetic); 40% delay one PatchTreasures batch 1 virtual ms between its count and the cap mutex; 60% run a sampling reader under the cap mutex. non-trivial = the attempted transitions into the filter exceed the budget Max - m and two cap-bearing requests overlapped (or the delayed batch was parked at the hook); distinct = distinct schedule JSON"
	c.Assumptions = []string{
		"premise respected by construction: every request that can move a record into Cap.Filter carries the Cap; Cap.Filter has body-field legs only; the pre-state has at most Max matching records",
		"PatchTreasures responses carry no bodies: whether a patch moved its record into the filter is derived from the seeded state, the patch itself and its status; exact per-key accounting (responses agree with the final state, transitions add up to post - pre) is only done in schedules where every key has one writer",
		"CAP_EXCEEDED is flagged as unjustified only when the pre-count plus all transitions any request reports as accepted stay below Max, i.e. budget remained at every instant in every serial order",
		"'during the schedule' is judged only at instants where a reader holds the swamp's own cap mutex (LockCapMu), the lock every cap-bearing request holds from its decision to its save",
		"ShiftMatching+Cap removes records and cannot raise the count; it takes part as a competitor for the cap mutex",
		"not driven: the *Many batch variants, CreateIfNotExist patches, Cap filters with nested groups, V1 engine",
	}
	n := c.N(200, 3000)
	fixed := fixedCases()
	caseAt := func(j int) sched {
		if j < len(fixed) {
			return fixed[j]
		}
		return gen(c, j-len(fixed))
	}
	total := n + len(fixed)
	switch {
	case c.ReplayPath() != "":
		var w struct {
			Sig     string  `json:"sig"`
			Witness witness `json:"witness"`
		}
		rig.ReadJSON(c.ReplayPath(), &w)
		c.MinNontrivial = 0
		reps, hit := 25, 0
		for i := 0; i < reps; i++ {
			stop := watchdog(c, &w.Witness.Sched)
			for _, s := range runOne(c, t, w.Witness.Sched, i == 0) {
				if s == w.Sig {
					hit++
					break
				}
			}
			stop()
		}
		fmt.Printf("REPLAY property=C12 sig=%s reproduced %d of %d runs\n", w.Sig, hit, reps)
	case c.IsChild():
		var sp shard
		c.ChildSpec(&sp)
		for j := sp.From; j < sp.To; j++ {
			sc := caseAt(j)
			stop := watchdog(c, &sc)
			runOne(c, t, sc, false)
			stop()
		}
	case os.Getenv("C12_INPROC") != "":
		if v, err := strconv.Atoi(os.Getenv("C12_INPROC")); err == nil && v > 0 && v < total {
			total = v
		}
		for j := 0; j < total; j++ {
			sc := caseAt(j)
			stop := watchdog(c, &sc)
			runOne(c, t, sc, true)
			stop()
		}
	default:
		c.MinNontrivial = n / 4
		per := 1 // one schedule per child: a deadlocked bubble cannot be continued
		var specs []any
		for from := 0; from < total; from += per {
			specs = append(specs, shard{From: from, To: min(from+per, total)})
		}
		raceSigs := map[string]int{}
		for _, r := range c.Fanout(specs, rig.FanoutOpts{Par: 16, Timeout: 5 * time.Minute}) {
			if r.TimedOut || r.NoPartial || len(r.Fatal) > 0 {
				c.Case(fmt.Sprintf("child-lost-%v", r.Spec), false)
				c.Inconclusive(fmt.Sprintf("child %v: timeout=%v nopartial=%v fatal=%v log=%s", r.Spec, r.TimedOut, r.NoPartial, r.Fatal, r.LogPath))
			}
			for _, rr := range r.Races {
				raceSigs[rr.Sig]++
			}
		}
		var rs []string
		for s, k := range raceSigs {
			rs = append(rs, fmt.Sprintf("%s x%d", s, k))
		}
		sort.Strings(rs)
		c.Extra("race_reports_not_judged_here", rs)
	}
}
