package c12

import "sort"

func sortedKeys[V any](m map[string]V) []string {
	var ks []string
	for k := range m {
		ks = append(ks, k)
	}
	sort.Strings(ks)
	return ks
}
