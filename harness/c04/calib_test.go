package c04

import (
	"fmt"
	"os"
	"path/filepath"
	"testing"

	"verifharness/rig"
)

func TestCalib(t *testing.T) {
	if os.Getenv("C04_CALIB") == "" {
		t.Skip()
	}
	c := rig.NewCheck(t, "C04", "exploration")
	dir := t.TempDir()
	w := &world{c: c, dir: dir, sources: map[int]*source{}}
	rn := &runner{c: c, dir: dir, path: filepath.Join(dir, "in.hyd"), mark: func(int, int, string) {}}
	for id := 0; id < nSources; id++ {
		s := w.source(id)
		line := fmt.Sprintf("src %2d %-10s treasure=%v size=%6d entries=%3d blocks=%2d bound=%8d:", id, s.Kind, s.Allow.treasure, len(s.Bytes), s.Entries, len(s.Layout.Blocks), allocBound(len(s.Bytes)))
		for call := 0; call < nCalls; call++ {
			rn.place(s.Bytes)
			o := rn.exec(call)
			line += fmt.Sprintf(" %d=%.2f", call, float64(o.delta)/float64(allocBound(len(s.Bytes))))
			if call == callLoad {
				line += fmt.Sprintf(" (loaded %d, %d B/rec)", len(o.loaded), int(o.delta)/max(1, s.Entries))
			}
		}
		fmt.Println(line)
	}
}
