// C04 — corrupt storage files are detected, never misread, never crash the server.
//
// Monitor: byte strings are presented as .hyd files to the real reader
// (v2.NewFileReader / LoadIndex / ReadAllBlocks / ScanBlockHeaders / CalculateFragmentation /
// v2.ReadSwampName) and to the real chroniclerV2.Load. The byte strings are pure random data and
// PRNG-chosen mutants of valid files that were produced by the real v2.FileWriter (truncation at
// structural boundaries ±1, bit flips, forged block-header and file-header fields, spliced blocks,
// blocks whose content was mangled and whose CRC was recomputed).
//
// Oracles, per (input, call):
//  1. no panic (recovered in the child, reported) and no process death (batches run in child
//     processes; the child records (input, call) on disk before every call, so a dead child names
//     its input);
//  2. the call returns (a child that hits the watchdog is inconclusive);
//  3. runtime.MemStats.TotalAlloc delta of the call ≤ 64 × file size + 4 MiB. Children run under
//     RLIMIT_AS, so a multi-GiB allocation dies with "fatal error: out of memory" instead of
//     occupying the machine; such a death is a violation of this clause;
//  4. no misread: every record returned without error is a record that was written to the file(s)
//     the mutant derives from.
//
// Process structure: the parent writes the valid source files once, then fans batches of inputs
// out to children. A child persists what it has observed after every input; when it dies the
// parent reads the (input, call, phase) cursor the child left behind, turns the death into a
// violation (or retries when the address-space limit bit outside the code under test) and starts
// a new child that resumes at that input without the fatal call. Allocation violations are named
// by their allocation site (from the memory profile of a re-execution, or from the traceback of
// the dead child), so that the same defect has the same signature whichever input reaches it.
package c04

import (
	"bytes"
	"crypto/sha256"
	"encoding/base64"
	"encoding/binary"
	"encoding/gob"
	"encoding/hex"
	"encoding/json"
	"fmt"
	"hash/crc32"
	"math/rand/v2"
	"os"
	"path/filepath"
	"regexp"
	"runtime"
	"runtime/debug"
	"sort"
	"strings"
	"syscall"
	"testing"
	"time"

	"github.com/golang/snappy"

	"github.com/hydraide/hydraide/app/core/hydra/swamp/beacon"
	"github.com/hydraide/hydraide/app/core/hydra/swamp/chronicler"
	v2 "github.com/hydraide/hydraide/app/core/hydra/swamp/chronicler/v2"
	"github.com/hydraide/hydraide/app/core/hydra/swamp/treasure"

	"verifharness/rig"
)

// ---------------------------------------------------------------------------------------------
// calls under observation

const (
	callNewFileReader = iota
	callLoadIndex
	callReadAllBlocks
	callScanBlockHeaders
	callCalcFrag
	callReadSwampName
	callLoad
	nCalls
)

var callNames = [nCalls]string{"NewFileReader", "LoadIndex", "ReadAllBlocks", "ScanBlockHeaders", "CalculateFragmentation", "ReadSwampName", "chroniclerV2.Load"}

const (
	allocFactor = 64
	allocSlack  = 4 << 20
	// address-space headroom of a child on top of what it maps at start-up
	asHeadroom = 640 << 20
	nSources   = 40
)

func allocBound(size int) uint64 { return uint64(allocFactor)*uint64(size) + allocSlack }

// ---------------------------------------------------------------------------------------------
// reference knowledge of the format (docs/features/v2-storage-engine.md "File Format" and the
// field tables of FileHeader / BlockHeader): only used to find structural boundaries in valid
// files and to say what a CRC-valid forged block denotes.

type blockInfo struct {
	Hdr, Data, End int
	CSize, USize   uint32
	N              uint16
}

type layout struct {
	Version   uint16
	NameLen   int
	DataStart int
	Blocks    []blockInfo
	Whole     bool // the blocks tile the file exactly
}

func parseLayout(b []byte) (l layout, ok bool) {
	if len(b) < 64 || string(b[:4]) != "HYDR" {
		return l, false
	}
	l.Version = binary.LittleEndian.Uint16(b[4:6])
	l.DataStart = 64
	if l.Version == 3 {
		l.NameLen = int(binary.LittleEndian.Uint16(b[44:46]))
		l.DataStart += l.NameLen
	}
	off := l.DataStart
	for off+16 <= len(b) {
		cs := binary.LittleEndian.Uint32(b[off : off+4])
		if uint64(off)+16+uint64(cs) > uint64(len(b)) {
			return l, true
		}
		bi := blockInfo{Hdr: off, Data: off + 16, End: off + 16 + int(cs), CSize: cs,
			USize: binary.LittleEndian.Uint32(b[off+4 : off+8]), N: binary.LittleEndian.Uint16(b[off+8 : off+10])}
		l.Blocks = append(l.Blocks, bi)
		off = bi.End
	}
	l.Whole = off == len(b)
	return l, true
}

type triple struct {
	Op   uint8
	Key  string
	Data []byte
	// offsets inside the uncompressed block
	Off, KeyLenOff, DataLenOff, End int
}

// refEntries parses as many entries as the documented layout allows from an uncompressed block.
func refEntries(u []byte) []triple {
	var out []triple
	off := 0
	for off+7 <= len(u) {
		t := triple{Off: off, Op: u[off], KeyLenOff: off + 1}
		kl := int(binary.LittleEndian.Uint16(u[off+1 : off+3]))
		p := off + 3
		if p+kl+4 > len(u) {
			break
		}
		t.Key = string(u[p : p+kl])
		p += kl
		t.DataLenOff = p
		dl := uint64(binary.LittleEndian.Uint32(u[p : p+4]))
		p += 4
		if uint64(p)+dl > uint64(len(u)) {
			break
		}
		t.Data = u[p : p+int(dl)]
		p += int(dl)
		t.End = p
		out = append(out, t)
		off = p
	}
	return out
}

func refDecompress(comp []byte) ([]byte, bool) {
	n, err := snappy.DecodedLen(comp)
	if err != nil || n > 32<<20 {
		return nil, false
	}
	u, err := snappy.Decode(nil, comp)
	if err != nil {
		return nil, false
	}
	return u, true
}

func tkey(op uint8, key string, data []byte) string {
	return string([]byte{op, byte(len(key)), byte(len(key) >> 8)}) + key + string(data)
}
func pkey(key string, data []byte) string {
	return string([]byte{byte(len(key)), byte(len(key) >> 8)}) + key + string(data)
}

// allowed is the set of records a reader may legitimately return for one input.
type allowed struct {
	triples  map[string]struct{} // op,key,data
	pairs    map[string]struct{} // key,data of INSERT/UPDATE
	meta     map[string]struct{} // data of METADATA entries
	keys     map[string]struct{} // keys of INSERT/UPDATE
	content  map[string]struct{} // key \x00 content-string of treasure payloads
	treasure bool                // every payload is a gob treasure with a known content string
}

func newAllowed() *allowed {
	return &allowed{triples: map[string]struct{}{}, pairs: map[string]struct{}{}, meta: map[string]struct{}{}, keys: map[string]struct{}{}, content: map[string]struct{}{}, treasure: true}
}

func (a *allowed) add(op uint8, key string, data []byte) {
	a.triples[tkey(op, key, data)] = struct{}{}
	switch op {
	case v2.OpInsert, v2.OpUpdate:
		a.pairs[pkey(key, data)] = struct{}{}
		a.keys[key] = struct{}{}
	case v2.OpMetadata:
		a.meta[string(data)] = struct{}{}
	}
}

func (a *allowed) merge(b *allowed) {
	for k := range b.triples {
		a.triples[k] = struct{}{}
	}
	for k := range b.pairs {
		a.pairs[k] = struct{}{}
	}
	for k := range b.meta {
		a.meta[k] = struct{}{}
	}
	for k := range b.keys {
		a.keys[k] = struct{}{}
	}
	for k := range b.content {
		a.content[k] = struct{}{}
	}
	a.treasure = a.treasure && b.treasure
}

// addFromBytes adds what every CRC-valid, decompressible block of b denotes.
func (a *allowed) addFromBytes(b []byte) {
	l, ok := parseLayout(b)
	if !ok {
		return
	}
	// a reader may start at either data offset when the version field is forged; take both
	for _, start := range []int{64, l.DataStart} {
		off := start
		for off+16 <= len(b) {
			cs := binary.LittleEndian.Uint32(b[off : off+4])
			if uint64(off)+16+uint64(cs) > uint64(len(b)) {
				break
			}
			comp := b[off+16 : off+16+int(cs)]
			if crc32.ChecksumIEEE(comp) == binary.LittleEndian.Uint32(b[off+10:off+14]) {
				if u, ok := refDecompress(comp); ok {
					for _, t := range refEntries(u) {
						a.add(t.Op, t.Key, t.Data)
					}
				}
			}
			off += 16 + int(cs)
		}
	}
	a.treasure = false
}

// ---------------------------------------------------------------------------------------------
// valid source files, written by the real writer

type source struct {
	ID      int
	Kind    string
	Name    string
	Bytes   []byte
	Layout  layout
	Allow   *allowed
	Entries int
}

type world struct {
	c       *rig.Check
	dir     string // private scratch directory
	shared  string // directory the parent leaves the sources in ("" = none)
	writer  bool   // this process writes the shared sources
	sources map[int]*source
}

func randBytes(r *rand.Rand, n int) []byte {
	b := make([]byte, n)
	for i := 0; i+8 <= n; i += 8 {
		binary.LittleEndian.PutUint64(b[i:], r.Uint64())
	}
	for i := n &^ 7; i < n; i++ {
		b[i] = byte(r.Uint32())
	}
	return b
}

var words = []string{"alpha", "beta", "gamma", "delta", "swamp", "hydra", "treasure", "island", "0123456789", "lorem ipsum "}

// payload bytes with bounded compressibility (at least a third of the bytes are random)
func rawPayload(r *rand.Rand, n int) []byte {
	out := make([]byte, 0, n)
	for len(out) < n {
		if r.IntN(3) == 0 {
			out = append(out, words[r.IntN(len(words))]...)
		} else {
			out = append(out, randBytes(r, 4+r.IntN(24))...)
		}
	}
	return out[:n]
}

func treasurePayload(key, content string) []byte {
	t := treasure.New(nil)
	g := t.StartTreasureGuard(true)
	t.BodySetKey(g, key)
	t.SetContentString(g, content)
	t.SetCreatedAt(g, time.Unix(946684800, 0).UTC())
	b, err := t.ConvertToByte(g)
	t.ReleaseTreasureGuard(g)
	if err != nil {
		panic(err)
	}
	return b
}

// savedSource is what the parent hands to its children, so that every source is written only once.
type savedSource struct {
	Kind, Name string
	Bytes      []byte
	Entries    int
	Treasure   bool
	Triples    []triple
	Content    []string
}

func (w *world) sourcePath(id int) string {
	return filepath.Join(w.shared, fmt.Sprintf("src-%d.gob", id))
}

func (w *world) loadSource(id int) *source {
	f, err := os.Open(w.sourcePath(id))
	if err != nil {
		return nil
	}
	defer f.Close()
	var sv savedSource
	if err := gob.NewDecoder(f).Decode(&sv); err != nil {
		return nil
	}
	s := &source{ID: id, Kind: sv.Kind, Name: sv.Name, Bytes: sv.Bytes, Entries: sv.Entries, Allow: newAllowed()}
	for _, t := range sv.Triples {
		s.Allow.add(t.Op, t.Key, t.Data)
	}
	for _, c := range sv.Content {
		s.Allow.content[c] = struct{}{}
	}
	s.Allow.treasure = sv.Treasure
	l, ok := parseLayout(s.Bytes)
	if !ok || !l.Whole {
		return nil
	}
	s.Layout = l
	return s
}

func (w *world) saveSource(s *source, triples []triple) {
	sv := savedSource{Kind: s.Kind, Name: s.Name, Bytes: s.Bytes, Entries: s.Entries, Treasure: s.Allow.treasure, Triples: triples}
	for c := range s.Allow.content {
		sv.Content = append(sv.Content, c)
	}
	var buf bytes.Buffer
	if err := gob.NewEncoder(&buf).Encode(&sv); err != nil {
		panic(err)
	}
	if err := os.WriteFile(w.sourcePath(s.ID)+".tmp", buf.Bytes(), 0o644); err != nil {
		panic(err)
	}
	if err := os.Rename(w.sourcePath(s.ID)+".tmp", w.sourcePath(s.ID)); err != nil {
		panic(err)
	}
}

func (w *world) source(id int) *source {
	if s := w.sources[id]; s != nil {
		return s
	}
	if w.shared != "" && !w.writer {
		if s := w.loadSource(id); s != nil {
			w.sources[id] = s
			return s
		}
	}
	r := w.c.RandFor(fmt.Sprintf("source-%d", id))
	var written []triple
	s := &source{ID: id, Allow: newAllowed()}
	switch x := id % 5; {
	case x < 3:
		s.Kind = "v3-named"
		s.Name = fmt.Sprintf("sanctuary/realm%d/swamp-%d", r.IntN(9), id)
	case x == 3:
		s.Kind = "v3-noname"
	default:
		s.Kind = "v2-legacy"
		s.Name = fmt.Sprintf("legacy/realm/swamp-%d", id)
	}
	useTreasure := id%2 == 0
	s.Allow.treasure = useTreasure
	blockSize := []int{512, 4096, v2.DefaultMaxBlockSize}[r.IntN(3)]
	nEntries := []int{1, 3, 12, 40, 120}[r.IntN(5)] + r.IntN(8)
	if id == 0 {
		nEntries = 1
	}
	keySpace := 1 + nEntries/2
	path := filepath.Join(w.dir, fmt.Sprintf("src-%d.hyd", id))
	_ = os.Remove(path)
	var fw *v2.FileWriter
	var err error
	if s.Kind == "v3-named" {
		fw, err = v2.NewFileWriterWithName(path, blockSize, s.Name)
	} else {
		fw, err = v2.NewFileWriter(path, blockSize)
	}
	if err != nil {
		panic(err)
	}
	write := func(e v2.Entry) {
		if err := fw.WriteEntry(e); err != nil {
			panic(err)
		}
		s.Allow.add(e.Operation, e.Key, e.Data)
		written = append(written, triple{Op: e.Operation, Key: e.Key, Data: e.Data})
		s.Entries++
	}
	if s.Kind == "v2-legacy" {
		write(v2.Entry{Operation: v2.OpMetadata, Key: v2.MetadataEntryKey, Data: []byte(s.Name)})
		if err := fw.Flush(); err != nil {
			panic(err)
		}
	}
	live := map[string]bool{}
	bigLeft := 2
	for i := 0; i < nEntries; i++ {
		key := fmt.Sprintf("key-%d-%d", id, r.IntN(keySpace))
		if r.IntN(6) == 0 {
			key += strings.Repeat("x", r.IntN(200))
		}
		if live[key] && r.IntN(4) == 0 {
			write(v2.Entry{Operation: v2.OpDelete, Key: key})
			delete(live, key)
			continue
		}
		op := v2.OpInsert
		if live[key] {
			op = v2.OpUpdate
		}
		n := 8 + r.IntN(200)
		if bigLeft > 0 && r.IntN(25) == 0 {
			n = 3000 + r.IntN(30000)
			bigLeft--
		}
		var data []byte
		if useTreasure {
			content := fmt.Sprintf("v%d-%d-", id, i) + base64.StdEncoding.EncodeToString(rawPayload(r, n))
			data = treasurePayload(key, content)
			s.Allow.content[key+"\x00"+content] = struct{}{}
		} else {
			data = rawPayload(r, n)
		}
		write(v2.Entry{Operation: op, Key: key, Data: data})
		live[key] = true
		if r.IntN(12) == 0 {
			if err := fw.Flush(); err != nil {
				panic(err)
			}
		}
	}
	if err := fw.Close(); err != nil {
		panic(err)
	}
	b, err := os.ReadFile(path)
	if err != nil {
		panic(err)
	}
	_ = os.Remove(path)
	// the header carries wall-clock timestamps and no checksum: pin them, so that inputs are a
	// function of the seed only
	binary.LittleEndian.PutUint64(b[8:16], 946684800_000000000)
	binary.LittleEndian.PutUint64(b[16:24], 946684800_000000000)
	if s.Kind == "v2-legacy" {
		binary.LittleEndian.PutUint16(b[4:6], 2)
	}
	s.Bytes = b
	l, ok := parseLayout(b)
	if !ok || !l.Whole || len(l.Blocks) == 0 {
		panic(fmt.Sprintf("harness self-check: reference layout does not tile source %d (%+v)", id, l))
	}
	// self-check of generator and reference decoder: the blocks denote exactly what was written
	chk := newAllowed()
	chk.addFromBytes(b)
	if len(chk.triples) != len(s.Allow.triples) {
		panic(fmt.Sprintf("harness self-check: source %d: reference decoder sees %d distinct entries, %d written", id, len(chk.triples), len(s.Allow.triples)))
	}
	for k := range chk.triples {
		if _, ok := s.Allow.triples[k]; !ok {
			panic(fmt.Sprintf("harness self-check: source %d: reference decoder disagrees with written entries", id))
		}
	}
	s.Layout = l
	w.sources[id] = s
	if w.shared != "" && w.writer {
		w.saveSource(s, written)
	}
	return s
}

// ---------------------------------------------------------------------------------------------
// inputs

type input struct {
	Idx      int
	Class    string
	Desc     string
	Src      int
	Donor    int
	Bytes    []byte
	RefExtra bool // CRC was recomputed: what the forged blocks denote is allowed as well
}

var classSchedule = func() []string {
	w := []struct {
		c string
		n int
	}{
		{"random", 2}, {"random-after-header", 2}, {"truncate", 5}, {"bitflip1", 4}, {"bitflipN", 2},
		{"forge-bh-compressedsize", 2}, {"forge-bh-uncompressedsize", 2}, {"forge-bh-entrycount", 2},
		{"forge-fh-version", 1}, {"forge-fh-namelength", 1}, {"forge-fh-counters", 1}, {"forge-fh-magic", 1},
		{"splice", 3}, {"crcfix-entries", 3}, {"crcfix-snappy", 2}, {"valid", 1},
	}
	var out []string
	for _, x := range w {
		for i := 0; i < x.n; i++ {
			out = append(out, x.c)
		}
	}
	// spread the classes (stride coprime with the length)
	res := make([]string, len(out))
	for i := range out {
		res[(i*7)%len(out)] = out[i]
	}
	return res
}()

func clone(b []byte) []byte { return append([]byte(nil), b...) }

func pick32(r *rand.Rand, truth uint32, extra ...uint32) uint32 {
	vals := append([]uint32{0, 1, truth - 1, truth + 1, 1 << 31, 1<<32 - 1}, extra...)
	for {
		v := vals[r.IntN(len(vals))]
		if v != truth {
			return v
		}
	}
}

func pick16(r *rand.Rand, truth uint16, extra ...uint16) uint16 {
	vals := append([]uint16{0, 1, truth - 1, truth + 1, 1 << 15, 1<<16 - 1}, extra...)
	for {
		v := vals[r.IntN(len(vals))]
		if v != truth {
			return v
		}
	}
}

type boundary struct {
	Off  int
	Kind string
}

func boundaries(s *source) []boundary {
	bs := []boundary{{0, "start"}, {4, "magic-end"}, {6, "version-end"}, {44, "namelength"}, {46, "namelength-end"}, {64, "fileheader-end"}}
	if s.Layout.DataStart != 64 {
		bs = append(bs, boundary{s.Layout.DataStart, "name-end"})
	}
	for i, b := range s.Layout.Blocks {
		pos := "mid"
		if i == 0 {
			pos = "first"
		} else if i == len(s.Layout.Blocks)-1 {
			pos = "last"
		}
		bs = append(bs, boundary{b.Hdr, pos + "-block-start"}, boundary{b.Hdr + 4, pos + "-bh-csize-end"}, boundary{b.Hdr + 8, pos + "-bh-usize-end"},
			boundary{b.Hdr + 10, pos + "-bh-count-end"}, boundary{b.Hdr + 14, pos + "-bh-crc-end"}, boundary{b.Data, pos + "-block-data-start"},
			boundary{(b.Data + b.End) / 2, pos + "-block-data-middle"}, boundary{b.End, pos + "-block-end"})
	}
	return bs
}

func rebuildBlock(comp []byte, usize uint32, n uint16) []byte {
	h := make([]byte, 16, 16+len(comp))
	binary.LittleEndian.PutUint32(h[0:4], uint32(len(comp)))
	binary.LittleEndian.PutUint32(h[4:8], usize)
	binary.LittleEndian.PutUint16(h[8:10], n)
	binary.LittleEndian.PutUint32(h[10:14], crc32.ChecksumIEEE(comp))
	return append(h, comp...)
}

func (w *world) gen(idx int) *input {
	r := w.c.Rand(idx)
	in := &input{Idx: idx, Class: classSchedule[idx%len(classSchedule)], Src: -1, Donor: -1}
	if in.Class == "random" {
		n := []int{0, 1, 15, 63, 64, 65, 80, 200, 4096}[r.IntN(9)] + r.IntN(16)
		in.Bytes = randBytes(r, n)
		in.Desc = fmt.Sprintf("len=%d", n)
		return in
	}
	s := w.source(r.IntN(nSources))
	in.Src = s.ID
	b := clone(s.Bytes)
	blk := s.Layout.Blocks[r.IntN(len(s.Layout.Blocks))]
	bpos := func() string {
		switch {
		case blk.Hdr == s.Layout.Blocks[0].Hdr:
			return "first"
		case blk.End == len(s.Bytes):
			return "last"
		}
		return "mid"
	}
	switch in.Class {
	case "valid":
		in.Desc = s.Kind
	case "random-after-header":
		keep := s.Layout.DataStart
		if r.IntN(3) == 0 {
			keep = 64
		}
		n := []int{0, 1, 15, 16, 17, 40, 300, 5000}[r.IntN(8)]
		b = append(b[:keep], randBytes(r, n)...)
		in.Desc = fmt.Sprintf("%s keep=%d random=%d", s.Kind, keep, n)
	case "truncate":
		bs := boundaries(s)
		bd := bs[r.IntN(len(bs))]
		d := r.IntN(3) - 1
		cut := min(max(bd.Off+d, 0), len(b))
		b = b[:cut]
		in.Desc = fmt.Sprintf("%s at %s%+d", s.Kind, bd.Kind, d)
	case "bitflip1", "bitflipN":
		n := 1
		if in.Class == "bitflipN" {
			n = 2 + r.IntN(15)
		}
		var where []string
		for i := 0; i < n; i++ {
			var off int
			switch x := r.IntN(10); {
			case x < 3:
				off = r.IntN(s.Layout.DataStart)
				where = append(where, "fileheader")
			case x < 6:
				off = blk.Hdr + r.IntN(16)
				where = append(where, "blockheader")
			default:
				off = r.IntN(len(b))
				where = append(where, "any")
			}
			b[off] ^= 1 << r.IntN(8)
		}
		sort.Strings(where)
		in.Desc = s.Kind + " " + strings.Join(where, ",")
	case "forge-bh-compressedsize":
		v := pick32(r, blk.CSize, uint32(len(b)-blk.Data), uint32(len(b)-blk.Data+1), uint32(len(b)))
		binary.LittleEndian.PutUint32(b[blk.Hdr:], v)
		in.Desc = fmt.Sprintf("%s %s block: %d -> %d", s.Kind, bpos(), blk.CSize, v)
	case "forge-bh-uncompressedsize":
		v := pick32(r, blk.USize)
		binary.LittleEndian.PutUint32(b[blk.Hdr+4:], v)
		in.Desc = fmt.Sprintf("%s %s block: %d -> %d", s.Kind, bpos(), blk.USize, v)
	case "forge-bh-entrycount":
		v := pick16(r, blk.N)
		binary.LittleEndian.PutUint16(b[blk.Hdr+8:], v)
		in.Desc = fmt.Sprintf("%s %s block: %d -> %d", s.Kind, bpos(), blk.N, v)
	case "forge-fh-version":
		v := pick16(r, s.Layout.Version, 2, 3, 4, 0x0300)
		binary.LittleEndian.PutUint16(b[4:], v)
		in.Desc = fmt.Sprintf("%s %d -> %d", s.Kind, s.Layout.Version, v)
	case "forge-fh-namelength":
		truth := binary.LittleEndian.Uint16(b[44:46])
		ext := []uint16{16, uint16(len(b)), uint16(len(b) - 64)}
		if len(s.Layout.Blocks) > 1 {
			ext = append(ext, uint16(s.Layout.Blocks[1].Hdr-64))
		}
		v := pick16(r, truth, ext...)
		binary.LittleEndian.PutUint16(b[44:], v)
		in.Desc = fmt.Sprintf("%s %d -> %d", s.Kind, truth, v)
	case "forge-fh-counters":
		f := []struct {
			name    string
			off, sz int
		}{{"flags", 6, 2}, {"createdAt", 8, 8}, {"modifiedAt", 16, 8}, {"blockSize", 24, 4}, {"entryCount", 28, 8}, {"blockCount", 36, 8}, {"reserved", 46, 14}}[r.IntN(7)]
		vals := []uint64{0, 1, uint64(s.Entries) - 1, uint64(s.Entries) + 1, uint64(s.Entries) * 3, 1 << 31, 1 << 63, 1<<64 - 1}
		v := vals[r.IntN(len(vals))]
		var tmp [16]byte
		binary.LittleEndian.PutUint64(tmp[:], v)
		binary.LittleEndian.PutUint64(tmp[8:], v)
		copy(b[f.off:f.off+f.sz], tmp[:])
		in.Desc = fmt.Sprintf("%s %s=%d", s.Kind, f.name, v)
	case "forge-fh-magic":
		off := r.IntN(4)
		b[off] ^= 1 << r.IntN(8)
		in.Desc = fmt.Sprintf("%s byte %d", s.Kind, off)
	case "splice":
		d := w.source(r.IntN(nSources))
		in.Donor = d.ID
		dblk := d.Layout.Blocks[r.IntN(len(d.Layout.Blocks))]
		dbytes := d.Bytes[dblk.Hdr:dblk.End]
		blk2 := s.Layout.Blocks[r.IntN(len(s.Layout.Blocks))]
		op := []string{"insert-donor-block", "append-donor-block", "duplicate-block", "swap-blocks", "delete-block", "donor-data-under-own-header", "donor-block-mid-block", "append-donor-file", "own-header-over-donor-data-sizes-fixed"}[r.IntN(9)]
		switch op {
		case "insert-donor-block":
			b = append(append(clone(b[:blk.Hdr]), dbytes...), s.Bytes[blk.Hdr:]...)
		case "append-donor-block":
			b = append(b, dbytes...)
		case "duplicate-block":
			b = append(append(clone(b[:blk2.Hdr]), s.Bytes[blk.Hdr:blk.End]...), s.Bytes[blk2.Hdr:]...)
		case "swap-blocks":
			lo, hi := blk, blk2
			if lo.Hdr > hi.Hdr {
				lo, hi = hi, lo
			}
			if lo.Hdr != hi.Hdr {
				nb := clone(s.Bytes[:lo.Hdr])
				nb = append(nb, s.Bytes[hi.Hdr:hi.End]...)
				nb = append(nb, s.Bytes[lo.End:hi.Hdr]...)
				nb = append(nb, s.Bytes[lo.Hdr:lo.End]...)
				nb = append(nb, s.Bytes[hi.End:]...)
				b = nb
			}
		case "delete-block":
			b = append(clone(b[:blk.Hdr]), s.Bytes[blk.End:]...)
		case "donor-data-under-own-header":
			b = append(append(clone(b[:blk.Data]), d.Bytes[dblk.Data:dblk.End]...), s.Bytes[blk.End:]...)
		case "donor-block-mid-block":
			at := blk.Data + r.IntN(blk.End-blk.Data+1)
			b = append(append(clone(b[:at]), dbytes...), s.Bytes[at:]...)
		case "append-donor-file":
			b = append(b, d.Bytes...)
		case "own-header-over-donor-data-sizes-fixed":
			// header of the own block (checksum, entry count) with the donor's data and sizes
			nb := clone(b[:blk.Data])
			binary.LittleEndian.PutUint32(nb[blk.Hdr:], dblk.CSize)
			binary.LittleEndian.PutUint32(nb[blk.Hdr+4:], dblk.USize)
			b = append(append(nb, d.Bytes[dblk.Data:dblk.End]...), s.Bytes[blk.End:]...)
		}
		in.Desc = fmt.Sprintf("%s<-%s %s", s.Kind, d.Kind, op)
	case "crcfix-entries":
		in.RefExtra = true
		u, ok := refDecompress(s.Bytes[blk.Data:blk.End])
		if !ok {
			panic("harness self-check: valid block does not decompress")
		}
		u = clone(u)
		ents := refEntries(u)
		e := ents[r.IntN(len(ents))]
		op := []string{"bitflip", "keylen", "datalen", "truncate", "append-garbage", "opcode", "empty"}[r.IntN(7)]
		switch op {
		case "bitflip":
			u[r.IntN(len(u))] ^= 1 << r.IntN(8)
		case "keylen":
			binary.LittleEndian.PutUint16(u[e.KeyLenOff:], pick16(r, uint16(len(e.Key))))
		case "datalen":
			binary.LittleEndian.PutUint32(u[e.DataLenOff:], pick32(r, uint32(len(e.Data))))
		case "truncate":
			cut := []int{e.Off, e.Off + 1, e.Off + 3, e.DataLenOff, e.DataLenOff + 3, e.End - 1, len(u) - 1}[r.IntN(7)]
			u = u[:min(max(cut, 0), len(u))]
		case "append-garbage":
			u = append(u, randBytes(r, 1+r.IntN(24))...)
		case "opcode":
			u[e.Off] = []byte{0, 1, 2, 3, 4, 5, 255}[r.IntN(7)]
		case "empty":
			u = nil
		}
		usize, n := uint32(len(u)), blk.N
		hdr := "sizes-fixed"
		switch r.IntN(4) {
		case 0:
			usize, hdr = blk.USize, "stale-usize"
		case 1:
			n, hdr = pick16(r, blk.N), "forged-count"
		}
		nb := rebuildBlock(snappy.Encode(nil, u), usize, n)
		b = append(append(clone(b[:blk.Hdr]), nb...), s.Bytes[blk.End:]...)
		in.Desc = fmt.Sprintf("%s %s block %s %s", s.Kind, bpos(), op, hdr)
	case "crcfix-snappy":
		in.RefExtra = true
		comp := clone(s.Bytes[blk.Data:blk.End])
		op := []string{"bitflip", "truncate", "forge-decoded-length", "random", "append-garbage", "empty"}[r.IntN(6)]
		usize := blk.USize
		switch op {
		case "bitflip":
			comp[r.IntN(len(comp))] ^= 1 << r.IntN(8)
		case "truncate":
			comp = comp[:r.IntN(len(comp))]
		case "forge-decoded-length":
			_, vl := binary.Uvarint(comp)
			v := pick32(r, blk.USize, 1<<24, 1<<28)
			var tmp [10]byte
			comp = append(clone(tmp[:binary.PutUvarint(tmp[:], uint64(v))]), comp[max(vl, 0):]...)
			if r.IntN(2) == 0 {
				usize = v
			}
		case "random":
			comp = randBytes(r, len(comp))
		case "append-garbage":
			comp = append(comp, randBytes(r, 1+r.IntN(24))...)
		case "empty":
			comp = nil
		}
		nb := rebuildBlock(comp, usize, blk.N)
		b = append(append(clone(b[:blk.Hdr]), nb...), s.Bytes[blk.End:]...)
		in.Desc = fmt.Sprintf("%s %s block %s", s.Kind, bpos(), op)
	default:
		panic("unknown class " + in.Class)
	}
	in.Bytes = b
	return in
}

func (w *world) allowedFor(in *input) *allowed {
	a := newAllowed()
	if in.Src >= 0 {
		a.merge(w.source(in.Src).Allow)
	}
	if in.Donor >= 0 {
		a.merge(w.source(in.Donor).Allow)
	}
	if in.RefExtra {
		a.addFromBytes(in.Bytes)
	}
	return a
}

// ---------------------------------------------------------------------------------------------
// execution of one call

type outcome struct {
	opened   bool
	err      error
	panicked bool
	panicMsg string
	panicAt  string
	delta    uint64
	// results
	index  map[string][]byte
	blocks []*v2.Block
	name   string
	loaded map[string]treasure.Treasure
}

var numRe = regexp.MustCompile(`0x[0-9a-fA-F]+|\d+`)

func shortFn(f string) string {
	if i := strings.LastIndex(f, "/"); i >= 0 {
		f = f[i+1:]
	}
	f = regexp.MustCompile(`\.func\d+(\.\d+)*`).ReplaceAllString(f, ".func")
	return f
}

// siteOf reduces a call stack (innermost first) to "first frame outside the runtime[:via=first
// frame of the storage packages]".
func siteOf(fns []string) string {
	site, via := "", ""
	for _, f := range fns {
		if f == "" || strings.HasPrefix(f, "runtime.") || strings.HasPrefix(f, "runtime/") {
			continue
		}
		if strings.HasPrefix(f, "verifharness/") || strings.HasPrefix(f, "testing.") {
			break
		}
		if site == "" {
			site = f
		}
		if strings.Contains(f, "/chronicler") {
			via = f
			break
		}
	}
	if site == "" {
		return "unknown"
	}
	if via == "" || via == site {
		return shortFn(site)
	}
	return shortFn(site) + ":via=" + shortFn(via)
}

func callerFns(skipUntilPanic bool) []string {
	pc := make([]uintptr, 64)
	n := runtime.Callers(2, pc)
	fr := runtime.CallersFrames(pc[:n])
	var out []string
	seenPanic := !skipUntilPanic
	for {
		f, more := fr.Next()
		if seenPanic {
			out = append(out, f.Function)
		} else if f.Function == "runtime.gopanic" {
			seenPanic = true
		}
		if !more {
			break
		}
	}
	return out
}

type runner struct {
	c    *rig.Check
	dir  string
	path string // <dir>/in.hyd
	mark func(idx, call int, phase string)
}

func (rn *runner) place(b []byte) {
	_ = os.Remove(rn.path + ".compact")
	if err := os.WriteFile(rn.path, b, 0o644); err != nil {
		panic(err)
	}
}

// exec performs one call on the file at rn.path and measures it.
func (rn *runner) exec(call int) (o outcome) {
	var fr *v2.FileReader
	if call >= callLoadIndex && call <= callCalcFrag {
		var err error
		fr, err = v2.NewFileReader(rn.path)
		if err != nil {
			o.err = err
			return o
		}
		defer fr.Close()
	}
	o.opened = true
	var ch chronicler.Chronicler
	var bc beacon.Beacon
	if call == callLoad {
		ch = chronicler.NewV2(strings.TrimSuffix(rn.path, ".hyd"), 2)
		bc = beacon.New()
	}
	var m0, m1 runtime.MemStats
	runtime.ReadMemStats(&m0)
	func() {
		defer func() {
			if r := recover(); r != nil {
				o.panicked = true
				o.panicMsg = fmt.Sprint(r)
				o.panicAt = siteOf(callerFns(true))
			}
		}()
		switch call {
		case callNewFileReader:
			var f *v2.FileReader
			f, o.err = v2.NewFileReader(rn.path)
			if f != nil {
				o.name = f.GetSwampName()
				_ = f.Close()
			}
		case callLoadIndex:
			o.index, o.name, o.err = fr.LoadIndex()
		case callReadAllBlocks:
			o.blocks, o.err = fr.ReadAllBlocks()
		case callScanBlockHeaders:
			_, o.err = fr.ScanBlockHeaders()
		case callCalcFrag:
			_, _, _, o.err = fr.CalculateFragmentation()
		case callReadSwampName:
			o.name, o.err = v2.ReadSwampName(rn.path)
		case callLoad:
			ch.Load(bc)
		}
	}()
	runtime.ReadMemStats(&m1)
	o.delta = m1.TotalAlloc - m0.TotalAlloc
	if call == callLoad && !o.panicked {
		o.loaded = bc.GetAll()
		_ = ch.Close()
	}
	return o
}

// allocSite re-executes a call and names the stack that allocated the most bytes in it. With
// the default sampling rate an allocation of 4 MiB or more is in the profile with probability
// 1-e^-8; if nothing that large shows up the call is executed once more with every allocation
// profiled.
func (rn *runner) allocSite(call int, b []byte, bound uint64) string {
	site, n := rn.allocSiteAt(call, b)
	if uint64(n) < bound/4 {
		old := runtime.MemProfileRate
		runtime.MemProfileRate = 1
		site, _ = rn.allocSiteAt(call, b)
		runtime.MemProfileRate = old
	}
	return site
}

func (rn *runner) allocSiteAt(call int, b []byte) (string, int64) {
	debug.FreeOSMemory()
	snap := func() map[[32]uintptr]int64 {
		runtime.GC()
		runtime.GC()
		n, _ := runtime.MemProfile(nil, true)
		for {
			recs := make([]runtime.MemProfileRecord, n+64)
			m, ok := runtime.MemProfile(recs, true)
			if ok {
				out := make(map[[32]uintptr]int64, m)
				for _, r := range recs[:m] {
					out[r.Stack0] += r.AllocBytes
				}
				return out
			}
			n = m
		}
	}
	before := snap()
	rn.place(b)
	_ = rn.exec(call)
	after := snap()
	var best [32]uintptr
	var bestN int64
	for k, v := range after {
		if d := v - before[k]; d > bestN {
			best, bestN = k, d
		}
	}
	debug.FreeOSMemory()
	if bestN == 0 {
		return "unknown", 0
	}
	n := 0
	for n < len(best) && best[n] != 0 {
		n++
	}
	fr := runtime.CallersFrames(best[:n])
	var fns []string
	for {
		f, more := fr.Next()
		fns = append(fns, f.Function)
		if !more {
			break
		}
	}
	return siteOf(fns), bestN
}

// ---------------------------------------------------------------------------------------------
// witness

type witness struct {
	Seed   int64  `json:"seed"`
	Idx    int    `json:"idx"`
	Call   string `json:"call"`
	Class  string `json:"class"`
	Desc   string `json:"desc"`
	Size   int    `json:"size"`
	SHA256 string `json:"sha256"`
	Bytes  string `json:"bytes_base64,omitempty"`
	Head   string `json:"head_hex,omitempty"`
	Detail string `json:"detail"`
}

func mkWitness(seed int64, in *input, call int, detail string) witness {
	h := sha256.Sum256(in.Bytes)
	w := witness{Seed: seed, Idx: in.Idx, Call: callNames[call], Class: in.Class, Desc: in.Desc, Size: len(in.Bytes), SHA256: hex.EncodeToString(h[:]), Detail: detail}
	if len(in.Bytes) <= 4096 {
		w.Bytes = base64.StdEncoding.EncodeToString(in.Bytes)
	} else {
		w.Head = hex.EncodeToString(in.Bytes[:256])
	}
	return w
}

// ---------------------------------------------------------------------------------------------
// recorder: what a child has observed so far. It is persisted after every completed input, so
// that a child that dies loses nothing but the input it died on; the surviving child of a batch
// hands the whole record to the rig accumulator.

type violRec struct {
	Sig  string   `json:"sig"`
	What string   `json:"what"`
	W    *witness `json:"w,omitempty"`
}

type caseRec struct {
	Key        string `json:"k"`
	Nontrivial bool   `json:"n"`
}

type recorder struct {
	Seed    int64                      `json:"seed"`
	Cases   []caseRec                  `json:"cases"`
	Counts  map[string]int64           `json:"counts"`
	Sets    map[string]map[string]bool `json:"sets"`
	Viols   []violRec                  `json:"viols"`
	Incon   []string                   `json:"incon"`
	Samples []map[string]any           `json:"samples"`
}

func newRecorder(seed int64) *recorder {
	return &recorder{Seed: seed, Counts: map[string]int64{}, Sets: map[string]map[string]bool{}}
}

func (r *recorder) Case(key string, nontrivial bool) {
	r.Cases = append(r.Cases, caseRec{key, nontrivial})
}
func (r *recorder) Count(name string, n int64) { r.Counts[name] += n }
func (r *recorder) Inconclusive(s string)      { r.Incon = append(r.Incon, s) }
func (r *recorder) Seen(set, v string) {
	if r.Sets[set] == nil {
		r.Sets[set] = map[string]bool{}
	}
	r.Sets[set][v] = true
}
func (r *recorder) Sample(v map[string]any) {
	if len(r.Samples) < 6 {
		r.Samples = append(r.Samples, v)
	}
}
func (r *recorder) Violate(sig, what string, w witness) {
	n := 0
	for _, v := range r.Viols {
		if v.Sig == sig && v.W != nil {
			n++
		}
	}
	v := violRec{Sig: sig, What: what}
	if n < 3 {
		v.W = &w
	}
	r.Viols = append(r.Viols, v)
}

func (r *recorder) save(path string) {
	b, err := json.Marshal(r)
	if err != nil {
		panic(err)
	}
	if err := os.WriteFile(path+".tmp", b, 0o644); err != nil {
		panic(err)
	}
	if err := os.Rename(path+".tmp", path); err != nil {
		panic(err)
	}
}

func (r *recorder) apply(c *rig.Check) {
	for _, x := range r.Cases {
		c.Case(x.Key, x.Nontrivial)
	}
	for k, n := range r.Counts {
		c.Count(k, n)
	}
	for set, m := range r.Sets {
		for v := range m {
			c.Seen(set, v)
		}
	}
	for _, s := range r.Samples {
		c.Sample(s)
	}
	for _, s := range r.Incon {
		c.Inconclusive(s)
	}
	for _, v := range r.Viols {
		var w any
		if v.W != nil {
			w = *v.W
		}
		c.Violate(v.Sig, v.What, w)
	}
}

// ---------------------------------------------------------------------------------------------
// child

type spec struct {
	From    int      `json:"from"`  // first input of the batch (names the batch)
	Start   int      `json:"start"` // input to (re)start at
	To      int      `json:"to"`
	Skip    [][2]int `json:"skip,omitempty"` // (input, call) pairs that killed an earlier child of this batch
	Retries int      `json:"retries,omitempty"`
	Dir     string   `json:"dir"`
}

type cursor struct {
	Idx   int    `json:"idx"`
	Call  int    `json:"call"`
	Phase string `json:"phase"` // call | rerun (inside the code under test) | harness
}

var curFile *os.File

// setCursor records on disk where the child is (one fixed-width pwrite, no fsync needed: the
// page cache survives the death of the process).
func setCursor(sp spec, idx, call int, phase string) {
	if curFile == nil {
		f, err := os.OpenFile(curPath(sp), os.O_CREATE|os.O_RDWR|os.O_TRUNC, 0o644)
		if err != nil {
			panic(err)
		}
		curFile = f
	}
	cb := fmt.Sprintf(`{"idx":%d,"call":%d,"phase":%q}`, idx, call, phase)
	cb += strings.Repeat(" ", 64-len(cb))
	if _, err := curFile.WriteAt([]byte(cb), 0); err != nil {
		panic(err)
	}
}

func curPath(sp spec) string { return filepath.Join(sp.Dir, fmt.Sprintf("cur-%d", sp.From)) }
func recPath(sp spec) string { return filepath.Join(sp.Dir, fmt.Sprintf("rec-%d.json", sp.From)) }

func vsz() uint64 {
	b, err := os.ReadFile("/proc/self/statm")
	if err != nil {
		return 4 << 30
	}
	var pages uint64
	_, _ = fmt.Sscanf(string(b), "%d", &pages)
	return pages * uint64(os.Getpagesize())
}

func runChild(c *rig.Check) {
	var sp spec
	c.ChildSpec(&sp)
	lim := vsz() + asHeadroom
	if err := syscall.Setrlimit(syscall.RLIMIT_AS, &syscall.Rlimit{Cur: lim, Max: lim}); err != nil {
		c.Inconclusive("cannot set RLIMIT_AS: " + err.Error())
		return
	}
	debug.SetMemoryLimit(256 << 20)
	dir, err := os.MkdirTemp("", "verif-c04-child-")
	if err != nil {
		c.T.Fatal(err)
	}
	defer os.RemoveAll(dir)
	rec := newRecorder(c.Seed)
	if _, err := os.Stat(recPath(sp)); err == nil && sp.Start > sp.From {
		// continue the record of the children of this batch that died
		rig.ReadJSON(recPath(sp), rec)
	}
	w := &world{c: c, dir: dir, shared: sp.Dir, sources: map[int]*source{}}
	rn := &runner{c: c, dir: dir, path: filepath.Join(dir, "in.hyd")}
	skip := map[[2]int]bool{}
	for _, s := range sp.Skip {
		skip[s] = true
	}
	sent := rig.InstallSentinel()
	rn.mark = func(idx, call int, phase string) { setCursor(sp, idx, call, phase) }
	for idx := max(sp.Start, sp.From); idx < sp.To; idx++ {
		setCursor(sp, idx, -1, "harness")
		in := w.gen(idx)
		al := w.allowedFor(in)
		openedOK := false
		gobAllowance := uint64(0)
		for call := 0; call < nCalls; call++ {
			if skip[[2]int{idx, call}] {
				rec.Count("calls_that_killed_the_child", 1)
				continue
			}
			rn.place(in.Bytes)
			setCursor(sp, idx, call, "call")
			o := rn.exec(call)
			setCursor(sp, idx, call, "harness")
			sent.Drain()
			if call == callLoadIndex && o.err == nil && !o.panicked {
				for _, d := range o.index {
					if a := gobReadAhead(d); a > 0 {
						gobAllowance += a + 64<<10
					}
				}
			}
			judge(rec, rn, in, al, call, &o, gobAllowance)
			if call == callNewFileReader && o.err == nil && !o.panicked {
				openedOK = true
			}
			if o.delta > 16<<20 {
				debug.FreeOSMemory()
			}
		}
		mutant := in.Class != "valid" && (in.Src < 0 || string(in.Bytes) != string(w.source(in.Src).Bytes))
		h := sha256.Sum256(in.Bytes)
		rec.Case(hex.EncodeToString(h[:]), mutant && openedOK)
		rec.Count("class."+in.Class, 1)
		rec.Seen("classes", in.Class)
		if in.Class == "truncate" {
			rec.Seen("truncation_points", in.Desc)
		}
		rec.Count("input_bytes", int64(len(in.Bytes)))
		rec.Sample(map[string]any{"idx": in.Idx, "class": in.Class, "desc": in.Desc, "size": len(in.Bytes)})
		rec.save(recPath(sp))
		setCursor(sp, idx+1, -1, "harness")
	}
	_ = os.Remove(curPath(sp))
	_ = os.Remove(recPath(sp))
	rec.apply(c)
}

// gobReadAhead is what encoding/gob allocates up front for data taken as a gob stream in which
// a message is longer than the rest of the data. A gob stream is a sequence of messages, each
// preceded by its length (an unsigned integer: one byte below 128, else the negated byte count
// followed by that many big-endian bytes); gob reads a message below 10 MiB into a buffer of the
// claimed length and a longer one (below its 8 GiB sanity limit) through internal/saferio in
// 10 MiB chunks, i.e. it allocates min(claimed, 10 MiB) before it notices that the data ends.
func gobReadAhead(data []byte) uint64 {
	for p := 0; p < len(data); {
		var v uint64
		if data[p] < 0x80 {
			v = uint64(data[p])
			p++
		} else {
			n := -int(int8(data[p]))
			if n > 8 || len(data) < p+1+n {
				return 0
			}
			for _, b := range data[p+1 : p+1+n] {
				v = v<<8 | uint64(b)
			}
			p += 1 + n
		}
		if v >= 8<<30 {
			return 0
		}
		if v > uint64(len(data)-p) {
			return min(v, gobChunk)
		}
		p += int(v)
	}
	return 0
}

const gobChunk = 10 << 20

func judge(c *recorder, rn *runner, in *input, al *allowed, call int, o *outcome, gobAllowance uint64) {
	name := callNames[call]
	c.Count("calls", 1)
	if !o.opened {
		c.Count("outcome."+name+".open-error", 1)
		return
	}
	switch {
	case o.panicked:
		c.Count("outcome."+name+".panic", 1)
		msg := numRe.ReplaceAllString(o.panicMsg, "N")
		if len(msg) > 80 {
			msg = msg[:80]
		}
		c.Violate("panic:"+name+":at="+o.panicAt+":"+strings.ReplaceAll(msg, " ", "_"),
			fmt.Sprintf("%s panicked on a %s input (%s): %s", name, in.Class, in.Desc, o.panicMsg), mkWitness(c.Seed, in, call, o.panicMsg))
	case call == callLoad:
		c.Count(fmt.Sprintf("outcome.%s.returned", name), 1)
		if len(o.loaded) > 0 {
			c.Count("outcome."+name+".loaded-nonempty", 1)
		}
	case o.err != nil:
		c.Count("outcome."+name+".error", 1)
	default:
		c.Count("outcome."+name+".ok", 1)
	}
	if in.Class == "valid" && (o.err != nil || o.panicked) {
		c.Inconclusive(fmt.Sprintf("harness self-check: %s failed on an unmodified valid file (%s): %v", name, in.Desc, o.err))
	}
	// (3) allocation
	bound := allocBound(len(in.Bytes))
	if call == callLoad && gobAllowance > 0 {
		bound += gobAllowance
		c.Count("load_inputs_with_gob_readahead_allowance", 1)
	}
	if o.delta > bound {
		rn.mark(in.Idx, call, "rerun")
		site := rn.allocSite(call, in.Bytes, bound)
		rn.mark(in.Idx, call, "harness")
		c.Violate("alloc:site="+site,
			fmt.Sprintf("%s allocated %d bytes for a %d-byte %s input (%s); bound %d; allocation site %s", name, o.delta, len(in.Bytes), in.Class, in.Desc, bound, site),
			mkWitness(c.Seed, in, call, fmt.Sprintf("TotalAlloc delta %d > %d", o.delta, bound)))
	}
	if o.panicked || o.err != nil {
		return
	}
	// (4) misread
	mis := func(kind, detail string) {
		c.Violate("misread:"+name+":"+in.Class+":"+kind,
			fmt.Sprintf("%s returned without error a record that was never written (%s input, %s): %s", name, in.Class, in.Desc, detail), mkWitness(c.Seed, in, call, detail))
	}
	clip := func(b []byte) string {
		if len(b) > 48 {
			return fmt.Sprintf("%q…(%d bytes)", b[:48], len(b))
		}
		return fmt.Sprintf("%q", b)
	}
	switch call {
	case callLoadIndex:
		c.Count("records_returned", int64(len(o.index)))
		for k, d := range o.index {
			if _, ok := al.pairs[pkey(k, d)]; !ok {
				kind := "payload-differs"
				if _, ok := al.keys[k]; !ok {
					kind = "unknown-key"
				}
				mis(kind, fmt.Sprintf("key %s data %s", clip([]byte(k)), clip(d)))
				break
			}
		}
		if in.Class != "random" && binary.LittleEndian.Uint16(pad(in.Bytes, 6)[4:6]) == 2 && o.name != "" {
			if _, ok := al.meta[o.name]; !ok {
				mis("swamp-name-from-block", fmt.Sprintf("legacy-format swamp name %s is not the data of any written metadata entry", clip([]byte(o.name))))
			}
		}
		if in.Src < 0 && len(o.index) > 0 {
			mis("random-input-yields-records", fmt.Sprintf("%d records", len(o.index)))
		}
	case callReadAllBlocks:
		for _, b := range o.blocks {
			c.Count("records_returned", int64(len(b.Entries)))
			for _, e := range b.Entries {
				if _, ok := al.triples[tkey(e.Operation, e.Key, e.Data)]; !ok {
					mis("entry", fmt.Sprintf("op %d key %s data %s", e.Operation, clip([]byte(e.Key)), clip(e.Data)))
					return
				}
			}
		}
	case callReadSwampName:
		if binary.LittleEndian.Uint16(pad(in.Bytes, 6)[4:6]) == 2 && o.name != "" {
			if _, ok := al.meta[o.name]; !ok {
				mis("swamp-name-from-block", fmt.Sprintf("legacy-format swamp name %s is not the data of any written metadata entry", clip([]byte(o.name))))
			}
		}
	case callLoad:
		c.Count("records_returned", int64(len(o.loaded)))
		for k, t := range o.loaded {
			if _, ok := al.keys[k]; !ok {
				mis("unknown-key", fmt.Sprintf("treasure under key %s", clip([]byte(k))))
				break
			}
			if !al.treasure {
				continue
			}
			s, err := t.GetContentString()
			if err != nil {
				mis("treasure-content", fmt.Sprintf("key %s: content is not the written string: %v", clip([]byte(k)), err))
				break
			}
			if _, ok := al.content[k+"\x00"+s]; !ok {
				mis("treasure-content", fmt.Sprintf("key %s content %s", clip([]byte(k)), clip([]byte(s))))
				break
			}
		}
	}
}

func pad(b []byte, n int) []byte {
	if len(b) >= n {
		return b
	}
	return append(clone(b), make([]byte, n-len(b))...)
}

// ---------------------------------------------------------------------------------------------
// parent

var fnLineRe = regexp.MustCompile(`^([^\s].*)\([^()]*\)$`)

type fatalInfo struct {
	fatal      string
	fns        []string // innermost first, of the goroutine that was running
	oom        bool
	oomBytes   uint64
	threadFail bool
}

var oomRe = regexp.MustCompile(`runtime: out of memory: cannot allocate (\d+)-byte block`)

// readFatal extracts from a dead child's log why the runtime threw and where.
func readFatal(logPath string) (fi fatalInfo) {
	b, err := os.ReadFile(logPath)
	if err != nil {
		return fi
	}
	txt := string(b)
	if strings.Contains(txt, "pthread_create failed") || strings.Contains(txt, "failed to create new OS thread") {
		fi.threadFail = true
	}
	if m := oomRe.FindStringSubmatch(txt); m != nil {
		_, _ = fmt.Sscanf(m[1], "%d", &fi.oomBytes)
	}
	lines := strings.Split(txt, "\n")
	i := 0
	for ; i < len(lines); i++ {
		if strings.HasPrefix(lines[i], "fatal error: ") || strings.HasPrefix(lines[i], "panic: ") {
			fi.fatal = lines[i]
			break
		}
	}
	if fi.fatal == "" && fi.threadFail {
		fi.fatal = "runtime/cgo: pthread_create failed"
	}
	fi.oom = strings.Contains(fi.fatal, "out of memory") || strings.Contains(fi.fatal, "cannot allocate memory")
	for ; i < len(lines); i++ {
		if strings.HasPrefix(lines[i], "goroutine ") && strings.HasSuffix(lines[i], ":") {
			break
		}
	}
	for i++; i < len(lines); i++ {
		ln := lines[i]
		if ln == "" {
			break
		}
		if strings.HasPrefix(ln, "\t") || strings.HasPrefix(ln, "created by ") {
			continue
		}
		if m := fnLineRe.FindStringSubmatch(ln); m != nil {
			fi.fns = append(fi.fns, m[1])
		}
	}
	return fi
}

func TestCheck(t *testing.T) {
	c := rig.NewCheck(t, "C04", "exploration")
	defer c.Finish()
	if c.IsChild() {
		runChild(c)
		return
	}
	c.Rule = "inputs are byte strings presented as a .hyd file: PRNG-determined random strings and mutants (truncation at structural boundaries ±1, bit flips, forged block-header / file-header fields, spliced blocks, CRC-recomputed mangled blocks) of valid files written by the real v2.FileWriter; each is fed to NewFileReader, LoadIndex, ReadAllBlocks, ScanBlockHeaders, CalculateFragmentation, ReadSwampName and chroniclerV2.Load in a child process; non-trivial = the input differs from every valid file and passes the 64-byte header check, so that the block reader runs on it; distinct = distinct SHA-256 of the input bytes"
	c.Assumptions = []string{
		"weak reading of 'no misread': a returned record only has to be one that was written to the file(s) the input derives from (any version of a key; dropped or resurrected records are accepted)",
		"for a block whose CRC was recomputed over forged content the reader cannot know; what the forged bytes denote under the documented entry layout is accepted as written",
		"for spliced inputs the records of the donor file are accepted as written (whole blocks with intact CRC cannot be told apart)",
		"the plain-text swamp name of the current format is not covered by any checksum and is not judged; the legacy-format name (a METADATA entry inside a block) is",
		"header counters (EntryCount, BlockCount, BlockSize, timestamps) are not judged",
		fmt.Sprintf("children run under RLIMIT_AS = start-up address space + %d MiB; a child killed by 'fatal error: out of memory' while reading a file of at most a few hundred KiB counts as an allocation-bound violation", asHeadroom>>20),
		"chroniclerV2.Load hands every payload to encoding/gob, which allocates min(claimed message length, 10 MiB) before it notices that a payload is shorter than its length prefix claims; for payloads that are not treasures (only reachable through CRC-valid blocks) that bounded standard-library read-ahead is added to the bound of Load instead of being reported",
		"CRC32 collisions are not constructed",
	}
	c.MinNontrivial = 200
	n := c.N(4000, 200000)
	batch := c.N(50, 500)
	dir := rig.TempRoot("c04")
	defer rig.RemoveAll(dir)

	var pending []spec
	if p := c.ReplayPath(); p != "" {
		var w struct {
			Witness witness `json:"witness"`
		}
		rig.ReadJSON(p, &w)
		c.Seed = w.Witness.Seed
		pending = []spec{{From: w.Witness.Idx, Start: w.Witness.Idx, To: w.Witness.Idx + 1, Dir: dir}}
	} else {
		for from := 0; from < n; from += batch {
			pending = append(pending, spec{From: from, Start: from, To: min(from+batch, n), Dir: dir})
		}
	}
	c.Extra("alloc_bound", fmt.Sprintf("%d x file size + %d bytes", allocFactor, allocSlack))
	c.Extra("calls_per_input", callNames[:])

	pw := &world{c: c, dir: dir, shared: dir, writer: true, sources: map[int]*source{}}
	for id := 0; id < nSources; id++ {
		pw.source(id)
	}
	keptLogs := map[string]bool{}
	for round := 0; len(pending) > 0; round++ {
		if round > batch*(nCalls+4)+2 {
			c.Inconclusive(fmt.Sprintf("%d batches still dying after %d rounds", len(pending), round))
			break
		}
		specs := make([]any, len(pending))
		for i := range pending {
			specs[i] = pending[i]
		}
		res := c.Fanout(specs, rig.FanoutOpts{Par: 16, Timeout: 10 * time.Minute})
		var next []spec
		for i, r := range res {
			sp := pending[i]
			if r.ExitErr == nil && !r.NoPartial && !r.TimedOut {
				continue
			}
			if !r.NoPartial {
				// the batch was evaluated and handed over, but the process failed afterwards
				c.Inconclusive(fmt.Sprintf("child for inputs %d..%d exited with %v after handing over its results (log %s)", sp.From, sp.To, r.ExitErr, r.LogPath))
				continue
			}
			var cur cursor
			cb, err := os.ReadFile(curPath(sp))
			if err != nil || json.Unmarshal(cb, &cur) != nil {
				c.Inconclusive(fmt.Sprintf("child for inputs %d..%d died before its first call: %v %v (log %s)", sp.From, sp.To, r.ExitErr, r.Fatal, r.LogPath))
				continue
			}
			_ = os.Remove(curPath(sp))
			c.Count("child_deaths", 1)
			// retry: resume at the same input without learning anything (a death that is an
			// artefact of the address-space limit or of the harness, not of the call)
			retry := func(why string) {
				sp.Retries++
				c.Count("child_deaths_retried", 1)
				if sp.Retries > 3 {
					c.Inconclusive(fmt.Sprintf("input %d: child keeps dying outside the code under test (%s); log %s", cur.Idx, why, r.LogPath))
					sp.Retries = 0
					sp.Skip = nil
					sp.Start = cur.Idx + 1
					if sp.Start >= sp.To {
						return
					}
				} else {
					sp.Start = cur.Idx
				}
				next = append(next, sp)
			}
			if cur.Phase == "harness" || cur.Call < 0 {
				retry("phase harness: " + strings.Join(r.Fatal, "; "))
				continue
			}
			in := pw.gen(cur.Idx)
			name := callNames[cur.Call]
			keep := false
			if r.TimedOut {
				c.Inconclusive(fmt.Sprintf("watchdog: %s did not return within 10 minutes on input %d (%s, %s); log %s", name, cur.Idx, in.Class, in.Desc, r.LogPath))
				keep = true
			} else {
				lg := readFatal(r.LogPath)
				var sig string
				switch {
				case lg.oom && cur.Call == callLoad && strings.Contains(siteOf(lg.fns), "saferio.ReadData") && lg.oomBytes <= allocBound(len(in.Bytes))+2*gobChunk:
					// encoding/gob's bounded read-ahead for an undecodable payload (accepted, see the
					// assumptions): the address-space limit bit on an allocation that judge() allows
					retry(lg.fatal)
					continue
				case lg.oom && lg.oomBytes > allocBound(len(in.Bytes)):
					sig = "alloc:site=" + siteOf(lg.fns)
					c.Violate(sig, fmt.Sprintf("%s asked for a %d-byte block for a %d-byte %s input (%s), more than the child's address-space headroom (%d MiB), and the process died: %s; allocation site %s", name, lg.oomBytes, len(in.Bytes), in.Class, in.Desc, asHeadroom>>20, lg.fatal, siteOf(lg.fns)),
						mkWitness(c.Seed, in, cur.Call, fmt.Sprintf("%s (%d-byte block)", lg.fatal, lg.oomBytes)))
				case lg.oom || lg.threadFail:
					// the limit bit on an allocation that is within the bound, or on thread creation
					retry(lg.fatal)
					continue
				default:
					fatal := lg.fatal
					if fatal == "" {
						fatal = fmt.Sprintf("exit: %v", r.ExitErr)
					}
					msg := numRe.ReplaceAllString(fatal, "N")
					if len(msg) > 80 {
						msg = msg[:80]
					}
					sig = "death:" + name + ":at=" + siteOf(lg.fns) + ":" + strings.ReplaceAll(msg, " ", "_")
					c.Violate(sig, fmt.Sprintf("the process died in %s on a %s input (%s): %s", name, in.Class, in.Desc, fatal), mkWitness(c.Seed, in, cur.Call, fatal+" log="+r.LogPath))
				}
				if !keptLogs[sig] {
					keptLogs[sig] = true
					keep = true
				}
			}
			if !keep && strings.Contains(r.LogPath, filepath.Join("replays", "C04", "logs")) {
				_ = os.Remove(r.LogPath)
			}
			dup := false
			for _, s := range sp.Skip {
				if s == [2]int{cur.Idx, cur.Call} {
					dup = true
				}
			}
			if dup {
				c.Inconclusive(fmt.Sprintf("child for inputs %d..%d died again at a call it was told to skip (input %d, %s)", sp.From, sp.To, cur.Idx, name))
				continue
			}
			// resume at the input that killed the child, without the calls that are known to kill
			var sk [][2]int
			for _, s := range sp.Skip {
				if s[0] == cur.Idx {
					sk = append(sk, s)
				}
			}
			sp.Skip = append(sk, [2]int{cur.Idx, cur.Call})
			sp.Start = cur.Idx
			sp.Retries = 0
			next = append(next, sp)
		}
		pending = next
		c.Extra("fanout_rounds", round+1)
	}
}
