// C20 — swamp addressing is deterministic, in range and SDK/server-consistent.
//
// Monitor: generated (name triple, island counts, folder configuration) cases are pushed through
// the real server-side name package (app/name), the real SDK name package and the SDK client's
// real routing table (filled by client.Connect against loopback fake servers). Every call runs
// under recover. Oracles are invariants on the pure outputs only (no model of the hash):
// island in 1..N, SDK island == server island (N <= 65535), fresh/repeated/reused objects and
// both constructor routes agree, the routing table picks the server whose documented island
// range contains the island, GetFullHashPath never panics, is stable, and different canonical
// names never share a location.
package c20

import (
	"fmt"
	"hash/fnv"
	"math"
	"regexp"
	"sort"
	"strconv"
	"strings"
	"sync"
	"testing"
	"unicode/utf8"

	an "github.com/hydraide/hydraide/app/name"
	sn "github.com/hydraide/hydraide/sdk/go/hydraidego/v3/name"

	"verifharness/rig"
)

type triple struct {
	S string `json:"s"`
	R string `json:"r"`
	W string `json:"w"`
}

func (t triple) canon() string { return t.S + "/" + t.R + "/" + t.W }

// inContract: the documented name constraints (sdk name package comment, docs/sdk/go/go-sdk.md
// "Constraints"): all three parts present, each at least one character, no '/' inside a part.
func (t triple) inContract() bool {
	for _, p := range []string{t.S, t.R, t.W} {
		if p == "" || strings.Contains(p, "/") {
			return false
		}
	}
	return true
}

type folderCfg struct {
	Depth    int `json:"depth"`
	PerLevel int `json:"per_level"`
}

func hexDigits(v int) int { return len(strconv.FormatInt(int64(v), 16)) }

// supported: a folder configuration is treated as supported when every level can get its own
// hexadecimal digits out of the 64-bit (16 hex digit) name hash: depth >= 1, perLevel >= 1 and
// depth * max(2, hexdigits(perLevel)) <= 16. This contains every configuration the repository
// itself uses or documents: (1,1000) server, (3,2000) and (3,10000) tests, the two-level
// four-digit example "600/ba22/703a" of the package comment.
func (f folderCfg) supported() bool {
	if f.Depth < 1 || f.PerLevel < 1 {
		return false
	}
	d := hexDigits(f.PerLevel)
	if d < 2 {
		d = 2
	}
	return f.Depth*d <= 16
}

type kase struct {
	Origin string    `json:"origin"` // generator class of the name
	Name   triple    `json:"name"`
	Twin   *triple   `json:"twin,omitempty"` // a different canonical name that must not share the location
	Ns     []uint64  `json:"ns"`             // island counts asked, in this order, on the reused objects
	Cfg    folderCfg `json:"cfg"`
	Root   string    `json:"root"`
	Island uint64    `json:"island"`          // island id handed to GetFullHashPath
	Route  []int     `json:"route,omitempty"` // indexes into the routed client table, asked in this order with one reused name object
}

// ---------------------------------------------------------------------------
// call wrappers: every call into the code under test runs under recover

var digitsRe = regexp.MustCompile(`[0-9]+`)

func panicClass(p any) string {
	s := fmt.Sprint(p)
	s = digitsRe.ReplaceAllString(s, "N")
	s = strings.Map(func(r rune) rune {
		switch {
		case r == ' ':
			return '-'
		case r > 126 || r < 33:
			return -1
		}
		return r
	}, s)
	if len(s) > 70 {
		s = s[:70]
	}
	return s
}

func try[T any](f func() T) (v T, pc string) {
	defer func() {
		if p := recover(); p != nil {
			pc = panicClass(p)
			if pc == "" {
				pc = "panic"
			}
		}
	}()
	return f(), ""
}

func mkServer(t triple) an.Name { return an.New().Sanctuary(t.S).Realm(t.R).Swamp(t.W) }
func mkSDK(t triple) sn.Name    { return sn.New().Sanctuary(t.S).Realm(t.R).Swamp(t.W) }

// ---------------------------------------------------------------------------
// routed clients (real client.Connect against loopback fake servers)

var routed []*routedClient

func setupRouted(dir string) (*fakeCluster, error) {
	f := &fakeCluster{pki: newPKI(dir)}
	specs := []struct {
		n    uint64
		cuts []uint64
	}{
		{1, nil}, {2, []uint64{1}}, {10, []uint64{3, 4}}, {200, []uint64{100}},
		{1000, []uint64{500}}, {1000, []uint64{1, 333, 999}}, {65535, []uint64{32768, 65534}}, {65536, []uint64{65535}},
	}
	for _, s := range specs {
		rc, err := f.newRoutedClient(s.n, s.cuts)
		if err != nil {
			return f, err
		}
		routed = append(routed, rc)
	}
	return f, nil
}

// ---------------------------------------------------------------------------
// generators

var nsPool = []uint64{1, 2, 10, 1000, 65535, 65536, 1<<32 + 1}
var nsExtra = []uint64{3, 7, 100, 200, 255, 256, 4096, 65534, 1 << 31, 1 << 63, math.MaxUint64}
var depthPool = []int{0, 1, 2, 3, 4, 5, 6, 7, 8, 9, 10, 11, 12}
var perLevelPool = []int{1, 2, 16, 255, 256, 1000, 2000, 10000, 65536, 1000000}
var supportedCfgs, unsupportedCfgs []folderCfg

// near-limit supported configurations (all 16 or 15 hash digits in use)
var edgeCfgs = []folderCfg{{8, 1}, {8, 16}, {8, 255}, {7, 255}, {7, 2}, {5, 256}, {5, 1000}, {5, 2000}, {4, 10000}, {4, 65535}, {3, 65536}, {3, 1000000}, {3, 10000}, {3, 2000}, {2, 65536}, {1, 1000}}

func init() {
	for _, d := range depthPool {
		for _, m := range perLevelPool {
			c := folderCfg{d, m}
			if c.supported() {
				supportedCfgs = append(supportedCfgs, c)
			} else {
				unsupportedCfgs = append(unsupportedCfgs, c)
			}
		}
	}
	for _, c := range []folderCfg{{-1, 1000}, {1, 0}, {2, -5}, {17, 1}, {100, 1000}} {
		unsupportedCfgs = append(unsupportedCfgs, c)
	}
}

type rnd interface {
	IntN(int) int
	Uint64() uint64
}

var runeRanges = [][2]rune{{0x21, 0x7e}, {0xa1, 0x17f}, {0x400, 0x4ff}, {0x4e00, 0x4fff}, {0x1f600, 0x1f64f}, {0x300, 0x36f}, {0x5d0, 0x5ea}, {0x1, 0x1f}}

func randRune(r rnd) rune {
	for {
		rg := runeRanges[r.IntN(len(runeRanges))]
		c := rg[0] + rune(r.IntN(int(rg[1]-rg[0])+1))
		if c != '/' && utf8.ValidRune(c) {
			return c
		}
	}
}

var specials = []string{"*", ".", "..", " ", "\x00", "\\", "a b", "%2F", "a*b", "\n", "0", "000", "-", "~", "a\tb", "\u00e9", "e\u0301", "\ufeff", "\u202e", "CON", "x.hyd"}

const alnum = "abcdefghijklmnopqrstuvwxyzABCDEFGHIJKLMNOPQRSTUVWXYZ0123456789"

func randPart(r rnd) string {
	switch x := r.IntN(100); {
	case x < 45:
		n := 1 + r.IntN(12)
		b := make([]byte, n)
		for i := range b {
			b[i] = alnum[r.IntN(len(alnum))]
		}
		return string(b)
	case x < 55:
		return string(alnum[r.IntN(len(alnum))])
	case x < 80:
		n := 1 + r.IntN(10)
		var sb strings.Builder
		for i := 0; i < n; i++ {
			sb.WriteRune(randRune(r))
		}
		return sb.String()
	case x < 97:
		return specials[r.IntN(len(specials))]
	default:
		unit := randPart(r)
		if len(unit) > 64 {
			return unit
		}
		n := 1000 + r.IntN(64000)
		return strings.Repeat(unit, n/len(unit)+1)
	}
}

func randTriple(r rnd) triple { return triple{randPart(r), randPart(r), randPart(r)} }

// shiftTwin moves one byte-boundary between two neighbouring parts: the concatenation of the
// parts stays the same while the canonical name changes.
func shiftTwin(r rnd) (triple, triple) {
	for {
		a, b, c := randPart(r), randPart(r), randPart(r)
		if len(a) > 200 || len(b) > 200 || len(c) > 200 {
			continue
		}
		ra := []rune(a)
		if len(ra) < 2 {
			a += "x"
			ra = []rune(a)
		}
		cut := 1 + r.IntN(len(ra)-1)
		t1 := triple{a, b, c}
		t2 := triple{string(ra[:cut]), string(ra[cut:]) + b, c}
		if r.IntN(2) == 0 {
			t1 = triple{c, a, b}
			t2 = triple{c, string(ra[:cut]), string(ra[cut:]) + b}
		}
		if t1.inContract() && t2.inContract() && t1.canon() != t2.canon() {
			return t1, t2
		}
	}
}

func outOfContract(r rnd) triple {
	t := randTriple(r)
	mut := func(p *string) {
		switch r.IntN(4) {
		case 0:
			*p = ""
		case 1:
			*p = *p + "/" + randPart(r)
		case 2:
			*p = "/"
		default:
			*p = "/" + *p
		}
	}
	switch r.IntN(4) {
	case 0:
		mut(&t.S)
	case 1:
		mut(&t.R)
	case 2:
		mut(&t.W)
	default:
		mut(&t.S)
		mut(&t.W)
	}
	if t.inContract() {
		t.R = ""
	}
	return t
}

func pickNs(r rnd) []uint64 {
	n := 2 + r.IntN(3)
	seen := map[uint64]bool{}
	var out []uint64
	for len(out) < n {
		var v uint64
		switch x := r.IntN(10); {
		case x < 7:
			v = nsPool[r.IntN(len(nsPool))]
		case x < 9:
			v = nsExtra[r.IntN(len(nsExtra))]
		default:
			v = 1 + r.Uint64()%100000
		}
		if !seen[v] {
			seen[v] = true
			out = append(out, v)
		}
	}
	return out
}

var roots = []string{"/hydraide/data", "/d", "/hydraide/data/", "rel/data", "/"}

func gen(c *rig.Check, idx int) kase {
	r := c.Rand(idx)
	k := kase{Ns: pickNs(r), Root: roots[0]}
	if r.IntN(5) == 0 {
		k.Root = roots[r.IntN(len(roots))]
	}
	switch x := r.IntN(100); {
	case x < 12:
		k.Origin = "out-of-contract"
		k.Name = outOfContract(r)
	case x < 30:
		k.Origin = "shift-twin"
		t1, t2 := shiftTwin(r)
		k.Name, k.Twin = t1, &t2
	default:
		k.Origin = "random"
		k.Name = randTriple(r)
	}
	switch x := r.IntN(100); {
	case x < 14:
		k.Cfg = unsupportedCfgs[r.IntN(len(unsupportedCfgs))]
	case x < 40:
		k.Cfg = edgeCfgs[r.IntN(len(edgeCfgs))]
	default:
		k.Cfg = supportedCfgs[r.IntN(len(supportedCfgs))]
	}
	switch r.IntN(6) {
	case 0:
		k.Island = []uint64{0, 1, math.MaxUint64, 65536}[r.IntN(4)]
	default:
		k.Island = 1 + r.Uint64()%1000
	}
	if len(routed) > 0 && r.IntN(3) == 0 {
		a := r.IntN(len(routed))
		b := r.IntN(len(routed))
		k.Route = []int{a, b}
	}
	return k
}

// mine looks for names whose location has an unusually short last path element (the folder name
// is printed from the name hash; a shorter element means a numerically small hash). This is a
// generator heuristic only: it steers cases towards hashes with leading zero digits, which a
// uniform sample of 20 000 names reaches with probability about 2^-6.
func mine(seed int64, candidates int) []triple {
	type hit struct {
		l int
		t triple
	}
	const workers = 16
	per := candidates / workers
	res := make([][]hit, workers)
	var wg sync.WaitGroup
	for w := 0; w < workers; w++ {
		wg.Add(1)
		go func(w int) {
			defer wg.Done()
			defer func() { _ = recover() }()
			s, r := "m"+strconv.FormatInt(seed, 36), "w"+strconv.Itoa(w)
			var best []hit
			worst := 99
			for i := 0; i < per; i++ {
				t := triple{s, r, strconv.FormatInt(int64(i), 36)}
				p := mkServer(t).GetFullHashPath("", 0, 0, 1)
				l := len(p) - strings.LastIndexByte(p, '/') - 1
				if l >= 14 || (len(best) >= 48 && l >= worst) {
					continue
				}
				best = append(best, hit{l, t})
				if len(best) > 96 {
					sort.SliceStable(best, func(a, b int) bool { return best[a].l < best[b].l })
					best = best[:48]
					worst = best[len(best)-1].l
				}
			}
			res[w] = best
		}(w)
	}
	wg.Wait()
	var all []hit
	for _, b := range res {
		all = append(all, b...)
	}
	sort.SliceStable(all, func(a, b int) bool { return all[a].l < all[b].l })
	if len(all) > 40 {
		all = all[:40]
	}
	var out []triple
	for _, h := range all {
		out = append(out, h.t)
	}
	return out
}

// ---------------------------------------------------------------------------
// evaluation of one case

type evaluator struct {
	c *rig.Check
	// location -> canonical name (hash + preview), per (cfg, root, island)
	locs map[string]owner
}

type owner struct {
	h       uint64
	preview string
}

func ownerOf(canon string) owner {
	h := fnv.New64a()
	_, _ = h.Write([]byte(canon))
	p := canon
	if len(p) > 120 {
		p = p[:120] + "..."
	}
	return owner{h.Sum64(), p}
}

func (e *evaluator) run(k kase) (judged bool) {
	c := e.c
	nameOK := k.Name.inContract()
	cfgOK := k.Cfg.supported()
	viol := func(sig, what string) { c.Violate(sig, what, map[string]any{"case": k}) }
	// out-of-contract names: executed and counted, never judged
	judgeName := nameOK
	if !nameOK {
		c.Count("out_of_contract_names_executed", 1)
	}
	canon := k.Name.canon()

	// --- constructor routes -------------------------------------------------
	type both struct {
		x an.Name
		y sn.Name
	}
	build := func(load bool) (both, string) {
		return try(func() both {
			if load {
				return both{an.Load(canon), sn.Load(canon)}
			}
			return both{mkServer(k.Name), mkSDK(k.Name)}
		})
	}
	chain, pc := build(false)
	if pc != "" {
		if judgeName {
			viol("construct:panic:New-chain:"+pc, fmt.Sprintf("New().Sanctuary().Realm().Swamp() panicked (%s) for %q", pc, canon))
		} else {
			c.Count("out_of_contract_panics", 1)
		}
		return false
	}
	var loaded both
	haveLoad := false
	if nameOK { // Load(path) can only express triples whose parts contain no '/'
		loaded, pc = build(true)
		if pc != "" {
			viol("construct:panic:Load:"+pc, fmt.Sprintf("Load(%q) panicked (%s)", canon, pc))
		} else {
			haveLoad = true
		}
	}
	if judgeName {
		type g struct{ get, s, r, w string }
		gx, pc := try(func() g {
			return g{chain.x.Get(), chain.x.GetSanctuaryID(), chain.x.GetRealmName(), chain.x.GetSwampName()}
		})
		gy, pc2 := try(func() string { return chain.y.Get() })
		if pc != "" || pc2 != "" {
			viol("construct:panic:Get:"+pc+pc2, "Get()/part getters panicked for "+strconv.Quote(canon))
		} else {
			if gx.get != canon || gx.s != k.Name.S || gx.r != k.Name.R || gx.w != k.Name.W {
				viol("route:New-chain:server:canonical-form", fmt.Sprintf("server New-chain gives Get()=%q parts=(%q,%q,%q) for triple %q", gx.get, gx.s, gx.r, gx.w, canon))
			}
			if gy != canon {
				viol("route:New-chain:sdk:canonical-form", fmt.Sprintf("SDK New-chain gives Get()=%q for triple %q", gy, canon))
			}
		}
		if haveLoad {
			lx, pc := try(func() g {
				return g{loaded.x.Get(), loaded.x.GetSanctuaryID(), loaded.x.GetRealmName(), loaded.x.GetSwampName()}
			})
			ly, pc2 := try(func() string { return loaded.y.Get() })
			if pc != "" || pc2 != "" {
				viol("construct:panic:Get-after-Load:"+pc+pc2, "Get() after Load panicked for "+strconv.Quote(canon))
			} else {
				if lx.get != canon || lx.s != k.Name.S || lx.r != k.Name.R || lx.w != k.Name.W {
					viol("route:Load:server:differs-from-New-chain", fmt.Sprintf("server Load(%q) gives Get()=%q parts=(%q,%q,%q)", canon, lx.get, lx.s, lx.r, lx.w))
				}
				if ly != canon {
					viol("route:Load:sdk:differs-from-New-chain", fmt.Sprintf("SDK Load(%q) gives Get()=%q", canon, ly))
				}
			}
		}
	}

	// --- islands --------------------------------------------------------------
	freshSrv := map[uint64]uint64{}
	freshSDK := map[uint64]uint64{}
	for _, n := range k.Ns {
		if n == 0 {
			continue
		}
		// SDK
		y := mkSDK(k.Name)
		u, pc := try(func() uint64 { return y.GetIslandID(n) })
		if pc != "" {
			if judgeName {
				viol("island:panic:sdk:"+pc, fmt.Sprintf("SDK GetIslandID(%d) panicked (%s) for %q", n, pc, canon))
			}
			continue
		}
		freshSDK[n] = u
		u2, _ := try(func() uint64 { return y.GetIslandID(n) })
		u3, _ := try(func() uint64 { return mkSDK(k.Name).GetIslandID(n) })
		if judgeName {
			c.Count("island_calls", 3)
			if u < 1 || u > n {
				viol("island:out-of-range:sdk:fresh-object", fmt.Sprintf("SDK GetIslandID(%d)=%d for %q", n, u, canon))
			}
			if u2 != u {
				viol("island:unstable:sdk:same-object-same-N", fmt.Sprintf("SDK GetIslandID(%d) answered %d then %d on one object for %q", n, u, u2, canon))
			}
			if u3 != u {
				viol("island:unstable:sdk:two-fresh-objects", fmt.Sprintf("SDK GetIslandID(%d) answered %d and %d on two fresh objects for %q", n, u, u3, canon))
			}
			if haveLoad {
				ul, pc := try(func() uint64 { return sn.Load(canon).GetIslandID(n) })
				if pc != "" || ul != u {
					viol("island:route-differs:sdk", fmt.Sprintf("SDK island for N=%d: New-chain %d, Load %d %s for %q", n, u, ul, pc, canon))
				}
			}
		}
		// server (16-bit island counts only)
		if n > 65535 {
			continue
		}
		x := mkServer(k.Name)
		v, pc := try(func() uint16 { return x.GetFolderNumber(uint16(n)) })
		if pc != "" {
			if judgeName {
				viol("island:panic:server:"+pc, fmt.Sprintf("server GetFolderNumber(%d) panicked (%s) for %q", n, pc, canon))
			}
			continue
		}
		freshSrv[n] = uint64(v)
		v2, _ := try(func() uint16 { return x.GetFolderNumber(uint16(n)) })
		v3, _ := try(func() uint16 { return mkServer(k.Name).GetFolderNumber(uint16(n)) })
		if judgeName {
			c.Count("island_calls", 3)
			if uint64(v) < 1 || uint64(v) > n {
				viol("island:out-of-range:server:fresh-object", fmt.Sprintf("server GetFolderNumber(%d)=%d for %q", n, v, canon))
			}
			if v2 != v {
				viol("island:unstable:server:same-object-same-N", fmt.Sprintf("server GetFolderNumber(%d) answered %d then %d on one object for %q", n, v, v2, canon))
			}
			if v3 != v {
				viol("island:unstable:server:two-fresh-objects", fmt.Sprintf("server GetFolderNumber(%d) answered %d and %d on two fresh objects for %q", n, v, v3, canon))
			}
			if uint64(v) != u {
				viol("island:sdk-server-differ", fmt.Sprintf("N=%d: SDK island %d, server island %d for %q", n, u, v, canon))
			}
			if haveLoad {
				vl, pc := try(func() uint16 { return an.Load(canon).GetFolderNumber(uint16(n)) })
				if pc != "" || vl != v {
					viol("island:route-differs:server", fmt.Sprintf("server island for N=%d: New-chain %d, Load %d %s for %q", n, v, vl, pc, canon))
				}
			}
		}
	}
	// reused objects asked with the Ns in order: each answer must be the fresh object's answer
	if judgeName {
		y := mkSDK(k.Name)
		x := mkServer(k.Name)
		for i, n := range k.Ns {
			if want, ok := freshSDK[n]; ok {
				got, pc := try(func() uint64 { return y.GetIslandID(n) })
				c.Count("island_calls", 1)
				if i > 0 {
					c.Count("reused_object_other_N_calls", 1)
				}
				if pc != "" || got != want {
					viol("island:reused-object-different-N:sdk", fmt.Sprintf("SDK name object asked GetIslandID with %v in turn: for N=%d it answered %d (%s), a fresh object answers %d (%q) %s", k.Ns[:i+1], n, got, rangeWord(got, n), want, canon, pc))
					break
				}
			}
		}
		for i, n := range k.Ns {
			if want, ok := freshSrv[n]; ok {
				got, pc := try(func() uint16 { return x.GetFolderNumber(uint16(n)) })
				c.Count("island_calls", 1)
				if pc != "" || uint64(got) != want {
					viol("island:reused-object-different-N:server", fmt.Sprintf("server name object asked GetFolderNumber with %v in turn: for N=%d it answered %d (%s), a fresh object answers %d (%q) %s", k.Ns[:i+1], n, got, rangeWord(uint64(got), n), want, canon, pc))
					break
				}
			}
		}
	}

	// --- client routing table ---------------------------------------------------
	if judgeName && len(k.Route) > 0 && len(routed) > 0 {
		y := mkSDK(k.Name) // one name object, handed to the clients in turn (as an application would)
		for i, ri := range k.Route {
			rc := routed[ri%len(routed)]
			wantIsland, pc := try(func() uint64 { return mkSDK(k.Name).GetIslandID(rc.N) })
			if pc != "" {
				break
			}
			want := rc.hostOf(wantIsland)
			type res struct {
				host  string
				same  bool
				isNil bool
			}
			got, pc := try(func() res {
				sc := rc.C.GetServiceClientAndHost(y)
				if sc == nil {
					return res{isNil: true}
				}
				return res{host: sc.Host, same: rc.C.GetServiceClient(y) == sc.GrpcClient}
			})
			c.Count("routing_lookups", 1)
			c.Seen("routing_tables", fmt.Sprintf("N=%d servers=%d", rc.N, len(rc.Hosts)))
			pos := "first-client"
			if i > 0 && routed[k.Route[0]%len(routed)].N != rc.N {
				pos = "name-object-reused-with-other-allIslands"
			} else if i > 0 {
				pos = "name-object-reused-same-allIslands"
			}
			switch {
			case pc != "":
				viol("routing:panic:"+pc, fmt.Sprintf("client.GetServiceClientAndHost panicked (%s) for %q, allIslands=%d", pc, canon, rc.N))
			case got.isNil:
				viol("routing:no-server:"+pos, fmt.Sprintf("client with allIslands=%d ranges=%v found no server for %q (fresh island %d)", rc.N, rc.Ranges, canon, wantIsland))
			case got.host != want:
				viol("routing:wrong-server:"+pos, fmt.Sprintf("client with allIslands=%d ranges=%v routed %q to %s, island %d belongs to %s", rc.N, rc.Ranges, canon, got.host, wantIsland, want))
			case !got.same:
				viol("routing:GetServiceClient-differs-from-GetServiceClientAndHost", fmt.Sprintf("two lookups of %q gave different clients (allIslands=%d)", canon, rc.N))
			}
		}
	}

	// --- location -----------------------------------------------------------------
	judgeLoc := judgeName && cfgOK
	type locRes struct{ p1, p2, p3, pl string }
	lr, pc := try(func() locRes {
		x := mkServer(k.Name)
		var r locRes
		r.p1 = x.GetFullHashPath(k.Root, k.Island, k.Cfg.Depth, k.Cfg.PerLevel)
		r.p2 = x.GetFullHashPath(k.Root, k.Island, k.Cfg.Depth, k.Cfg.PerLevel)
		r.p3 = mkServer(k.Name).GetFullHashPath(k.Root, k.Island, k.Cfg.Depth, k.Cfg.PerLevel)
		if haveLoad {
			r.pl = an.Load(canon).GetFullHashPath(k.Root, k.Island, k.Cfg.Depth, k.Cfg.PerLevel)
		}
		return r
	})
	c.Count("location_calls", 3)
	if pc != "" {
		if judgeLoc {
			viol("location:panic:supported-config:"+pc, fmt.Sprintf("GetFullHashPath(root=%q, island=%d, depth=%d, perLevel=%d) panicked (%s) for %q", k.Root, k.Island, k.Cfg.Depth, k.Cfg.PerLevel, pc, canon))
		} else if !cfgOK {
			c.Count("unsupported_config_panics(not judged)", 1)
			c.Seen("unsupported_config_panic_classes", pc)
		} else {
			c.Count("out_of_contract_panics", 1)
		}
		return judgeLoc
	}
	if judgeLoc {
		if lr.p1 == "" {
			viol("location:empty", fmt.Sprintf("GetFullHashPath returned an empty path for %q", canon))
		}
		if lr.p2 != lr.p1 {
			viol("location:unstable:same-object", fmt.Sprintf("GetFullHashPath answered %q then %q on one object for %q", lr.p1, lr.p2, canon))
		}
		if lr.p3 != lr.p1 {
			viol("location:unstable:two-fresh-objects", fmt.Sprintf("GetFullHashPath answered %q and %q on two fresh objects for %q", lr.p1, lr.p3, canon))
		}
		if haveLoad && lr.pl != lr.p1 {
			viol("location:route-differs", fmt.Sprintf("GetFullHashPath: New-chain %q, Load %q for %q", lr.p1, lr.pl, canon))
		}
		ck := fmt.Sprintf("%d|%d|%s|%d|", k.Cfg.Depth, k.Cfg.PerLevel, k.Root, k.Island)
		e.claim(ck+lr.p1, canon, viol)
		if k.Twin != nil {
			tp, pc := try(func() string {
				return mkServer(*k.Twin).GetFullHashPath(k.Root, k.Island, k.Cfg.Depth, k.Cfg.PerLevel)
			})
			c.Count("location_calls", 1)
			if pc != "" {
				viol("location:panic:supported-config:"+pc, fmt.Sprintf("GetFullHashPath(depth=%d, perLevel=%d) panicked (%s) for %q", k.Cfg.Depth, k.Cfg.PerLevel, pc, k.Twin.canon()))
			} else {
				e.claim(ck+tp, k.Twin.canon(), viol)
			}
		}
		// observed, not judged: the memoised path of a reused object ignores a changed configuration
		alt, pc := try(func() [2]string {
			x := mkServer(k.Name)
			_ = x.GetFullHashPath(k.Root, k.Island, k.Cfg.Depth, k.Cfg.PerLevel)
			return [2]string{x.GetFullHashPath(k.Root, k.Island+1, k.Cfg.Depth, k.Cfg.PerLevel),
				mkServer(k.Name).GetFullHashPath(k.Root, k.Island+1, k.Cfg.Depth, k.Cfg.PerLevel)}
		})
		if pc == "" && alt[0] != alt[1] {
			c.Count("reused_object_path_ignores_changed_island(not judged)", 1)
		}
	}
	return judgeLoc
}

func rangeWord(v, n uint64) string {
	if v < 1 || v > n {
		return "outside 1..N"
	}
	return "inside 1..N"
}

func (e *evaluator) claim(loc, canon string, viol func(sig, what string)) {
	o := ownerOf(canon)
	if prev, ok := e.locs[loc]; ok && prev.h != o.h {
		viol("location:collision:different-canonical-names", fmt.Sprintf("names %q and %q resolve to the same location %q", prev.preview, o.preview, loc))
		return
	}
	e.locs[loc] = o
}

// ---------------------------------------------------------------------------

func TestCheck(t *testing.T) {
	c := rig.NewCheck(t, "C20", "exploration")
	defer c.Finish()
	c.Rule = "case = (name triple, ordered island counts, folder configuration, root, island id[, two routed clients]); names: random alnum / arbitrary UTF-8 / special strings ('*', '..', NUL, ...) / 1k-64k long parts / boundary-shifted twins (same concatenation, different canonical name) / names mined for a short hash folder name; every call under recover; non-trivial = name within the documented constraints AND supported folder configuration, so that every oracle (range, SDK==server, repeat/fresh/reused objects, both constructor routes, routing table, location stable + no collision) was evaluated; distinct = distinct case JSON"
	c.Assumptions = []string{
		"a swamp name is a triple that obeys the documented constraints (sdk name package comment, docs/sdk/go/go-sdk.md): three parts, each >= 1 character, no '/' inside a part; everything else in a part is allowed (any UTF-8, '*', control characters, 64k long). Triples with empty parts or '/' inside a part are executed and counted but nothing is demanded of them",
		"Load(path) is only compared with the New-chain for paths of exactly three '/'-separated parts (its documented format \"sanctuary/realm/swamp\"); Load of 2- or 4-part paths is outside 'name triples' and not exercised",
		"supported folder configuration = depth >= 1, perLevel >= 1 and depth*max(2,hexdigits(perLevel)) <= 16, i.e. the levels fit into the 16 hex digits of the 64-bit name hash; contains (1,1000) of the server, (3,2000)/(3,10000) of the repository's tests and the 2x4-digit example of the package comment. Other configurations (depth 0, depth*digits > 16, non-positive values) are executed; their panics are counted in the evidence but not judged, although settings.New accepts them silently",
		"island count N >= 1; the server side is asked only for N <= 65535 (uint16 API); N = 0 is not a configuration",
		"two names are different when their canonical strings s/r/w differ; islands of different names may coincide",
		"a name object that answered GetIslandID/GetFolderNumber for N1 and is then asked for N2 must answer like a fresh object (the island is documented as 'mapped into the provided allIslands range'); the analogous memoisation of GetFullHashPath against a changed island/configuration is counted but not judged (one server process has one configuration)",
		"the routing table is filled by the SDK client's real Connect() against loopback fake servers that only implement Heartbeat; expected server = the one whose [FromIsland,ToIsland] contains the island of a fresh name object",
	}
	c.MinNontrivial = 100

	dir := rig.TempRoot("c20")
	defer rig.RemoveAll(dir)
	cluster, err := setupRouted(dir)
	if cluster != nil {
		defer cluster.stop()
	}
	if err != nil {
		routed = nil
		c.Extra("routing_table_unavailable", err.Error())
	}

	ev := &evaluator{c: c, locs: map[string]owner{}}

	if p := c.ReplayPath(); p != "" {
		var w struct {
			Witness struct{ Case kase } `json:"witness"`
		}
		rig.ReadJSON(p, &w)
		j := ev.run(w.Witness.Case)
		c.Case(rig.Dump(w.Witness.Case), j)
		return
	}

	var cases []kase
	// fixed cases: the documentation's own examples
	for _, tr := range []triple{{"users", "profiles", "alice123"}, {"Sanctuary1", "RealmA", "SwampX"}, {"users", "profiles", "john.doe"}, {"search", "hu", "products"}} {
		for _, cf := range []folderCfg{{1, 1000}, {3, 2000}, {3, 10000}, {2, 65536}} {
			cases = append(cases, kase{Origin: "doc-example", Name: tr, Ns: []uint64{1000, 100, 200, 65535}, Cfg: cf, Root: "/hydraide/data", Island: 10, Route: []int{4, 3}})
		}
	}
	// mined names x near-limit configurations
	mined := mine(c.Seed, c.N(1<<22, 1<<25))
	c.Extra("mined_short_hash_names", len(mined))
	for i, tr := range mined {
		for j, cf := range edgeCfgs {
			cases = append(cases, kase{Origin: "mined-short-hash", Name: tr, Ns: []uint64{1000, 10}, Cfg: cf, Root: "/hydraide/data", Island: uint64(1 + (i*31+j)%1000)})
		}
	}
	n := c.N(20000, 2000000)
	total := len(cases)
	if n > total {
		total = n
	}
	for i := 0; i < total; i++ {
		var k kase
		if i < len(cases) {
			k = cases[i]
		} else {
			k = gen(c, i)
		}
		j := ev.run(k)
		c.Case(rig.Dump(k), j)
		c.Seen("name_origins", k.Origin)
		if j {
			c.Seen("judged_folder_configs", fmt.Sprintf("%d/%d", k.Cfg.Depth, k.Cfg.PerLevel))
		}
		if len(k.Name.S)+len(k.Name.R)+len(k.Name.W) < 300 {
			c.Sample(k)
		}
	}

	// bulk collision sample at the server's own configuration and at a deep one
	bulk := c.N(200000, 1000000)
	seen := make(map[string]int32, bulk)
	r := c.RandFor("bulk")
	gens := make([]triple, 0, bulk)
	for i := 0; i < bulk; i++ {
		var tr triple
		switch i % 4 {
		case 0:
			tr = triple{"bulk", "r" + strconv.Itoa(i%97), strconv.Itoa(i)}
		case 1:
			tr = triple{"b" + strconv.Itoa(i%1009), "realm", strconv.FormatInt(int64(i), 36)}
		default:
			tr = randTriple(r)
			if len(tr.S)+len(tr.R)+len(tr.W) > 400 {
				tr = triple{"long", strconv.Itoa(i), "x"}
			}
		}
		gens = append(gens, tr)
	}
	cfgB := []folderCfg{{1, 1000}, {4, 65536}}
	for ci, cf := range cfgB {
		clear(seen)
		for i, tr := range gens {
			p, pc := try(func() string { return mkServer(tr).GetFullHashPath("/hydraide/data", 7, cf.Depth, cf.PerLevel) })
			if pc != "" {
				c.Violate("location:panic:supported-config:"+pc, fmt.Sprintf("GetFullHashPath(depth=%d, perLevel=%d) panicked (%s) for %q", cf.Depth, cf.PerLevel, pc, tr.canon()),
					map[string]any{"case": kase{Origin: "bulk", Name: tr, Ns: []uint64{1000}, Cfg: cf, Root: "/hydraide/data", Island: 7}})
				continue
			}
			if j, ok := seen[p]; ok && gens[j].canon() != tr.canon() {
				c.Violate("location:collision:different-canonical-names", fmt.Sprintf("names %q and %q resolve to the same location %q", gens[j].canon(), tr.canon(), p),
					map[string]any{"case": kase{Origin: "bulk", Name: tr, Twin: &gens[j], Ns: []uint64{1000}, Cfg: cf, Root: "/hydraide/data", Island: 7}})
			}
			seen[p] = int32(i)
		}
		c.Count("bulk_collision_sample_names", int64(len(gens)))
		_ = ci
	}
	c.Extra("bulk_collision_configs", cfgB)
}
