package c20

// Loopback fake HydrAIDE servers so that the SDK client's *real* Connect() fills its
// routing table (the table is private; Connect is the only way to populate it). Each fake
// server only answers Heartbeat. Certificates are generated in-process; nothing leaves
// 127.0.0.1.

import (
	"context"
	"crypto/ecdsa"
	"crypto/elliptic"
	"crypto/rand"
	"crypto/tls"
	"crypto/x509"
	"crypto/x509/pkix"
	"encoding/pem"
	"fmt"
	"math/big"
	"net"
	"os"
	"path/filepath"
	"time"

	"github.com/hydraide/hydraide/sdk/go/hydraidego/v3/client"
	"github.com/hydraide/hydraide/sdk/go/hydraidego/v3/hydraidepbgo"
	"google.golang.org/grpc"
	"google.golang.org/grpc/credentials"
)

type beatServer struct {
	hydraidepbgo.UnimplementedHydraideServiceServer
}

func (beatServer) Heartbeat(_ context.Context, in *hydraidepbgo.HeartbeatRequest) (*hydraidepbgo.HeartbeatResponse, error) {
	return &hydraidepbgo.HeartbeatResponse{Pong: in.GetPing()}, nil
}

type pki struct {
	dir                    string
	caPath, cliCrt, cliKey string
	serverTLS              *tls.Config
}

func writePEM(path, typ string, der []byte) {
	if err := os.WriteFile(path, pem.EncodeToMemory(&pem.Block{Type: typ, Bytes: der}), 0o600); err != nil {
		panic(err)
	}
}

func newPKI(dir string) *pki {
	caKey, _ := ecdsa.GenerateKey(elliptic.P256(), rand.Reader)
	caTpl := &x509.Certificate{SerialNumber: big.NewInt(1), Subject: pkix.Name{CommonName: "verif-ca"},
		NotBefore: time.Now().Add(-time.Hour), NotAfter: time.Now().Add(24 * time.Hour),
		IsCA: true, BasicConstraintsValid: true, KeyUsage: x509.KeyUsageCertSign | x509.KeyUsageDigitalSignature}
	caDER, err := x509.CreateCertificate(rand.Reader, caTpl, caTpl, &caKey.PublicKey, caKey)
	if err != nil {
		panic(err)
	}
	caCert, _ := x509.ParseCertificate(caDER)
	leaf := func(serial int64, cn string, usage x509.ExtKeyUsage) (der []byte, key *ecdsa.PrivateKey) {
		key, _ = ecdsa.GenerateKey(elliptic.P256(), rand.Reader)
		tpl := &x509.Certificate{SerialNumber: big.NewInt(serial), Subject: pkix.Name{CommonName: cn},
			NotBefore: time.Now().Add(-time.Hour), NotAfter: time.Now().Add(24 * time.Hour),
			KeyUsage: x509.KeyUsageDigitalSignature, ExtKeyUsage: []x509.ExtKeyUsage{usage},
			IPAddresses: []net.IP{net.ParseIP("127.0.0.1")}, DNSNames: []string{"localhost"}}
		der, err := x509.CreateCertificate(rand.Reader, tpl, caCert, &key.PublicKey, caKey)
		if err != nil {
			panic(err)
		}
		return der, key
	}
	p := &pki{dir: dir, caPath: filepath.Join(dir, "ca.crt"), cliCrt: filepath.Join(dir, "client.crt"), cliKey: filepath.Join(dir, "client.key")}
	writePEM(p.caPath, "CERTIFICATE", caDER)
	cliDER, cliKey := leaf(3, "verif-client", x509.ExtKeyUsageClientAuth)
	writePEM(p.cliCrt, "CERTIFICATE", cliDER)
	kb, _ := x509.MarshalECPrivateKey(cliKey)
	writePEM(p.cliKey, "EC PRIVATE KEY", kb)
	srvDER, srvKey := leaf(2, "127.0.0.1", x509.ExtKeyUsageServerAuth)
	pool := x509.NewCertPool()
	pool.AddCert(caCert)
	p.serverTLS = &tls.Config{Certificates: []tls.Certificate{{Certificate: [][]byte{srvDER}, PrivateKey: srvKey}},
		ClientCAs: pool, ClientAuth: tls.RequireAndVerifyClientCert, MinVersion: tls.VersionTLS13}
	return p
}

type fakeCluster struct {
	pki     *pki
	servers []*grpc.Server
}

// listen starts one fake server and returns its host:port.
func (f *fakeCluster) listen() (string, error) {
	lis, err := net.Listen("tcp", "127.0.0.1:0")
	if err != nil {
		return "", err
	}
	s := grpc.NewServer(grpc.Creds(credentials.NewTLS(f.pki.serverTLS)))
	hydraidepbgo.RegisterHydraideServiceServer(s, beatServer{})
	go func() { _ = s.Serve(lis) }()
	f.servers = append(f.servers, s)
	return lis.Addr().String(), nil
}

func (f *fakeCluster) stop() {
	for _, s := range f.servers {
		s.Stop()
	}
}

// routedClient is an SDK client whose routing table was filled by its real Connect().
type routedClient struct {
	N      uint64
	Ranges [][2]uint64 // per server [from,to], ascending, covering 1..N
	Hosts  []string
	C      client.Client
}

// newRoutedClient splits 1..n at the given cut points (each cut c ends a range at c).
func (f *fakeCluster) newRoutedClient(n uint64, cuts []uint64) (*routedClient, error) {
	rc := &routedClient{N: n}
	from := uint64(1)
	var servers []*client.Server
	for _, to := range append(append([]uint64{}, cuts...), n) {
		if to < from || to > n {
			continue
		}
		host, err := f.listen()
		if err != nil {
			return nil, err
		}
		rc.Ranges = append(rc.Ranges, [2]uint64{from, to})
		rc.Hosts = append(rc.Hosts, host)
		servers = append(servers, &client.Server{Host: host, FromIsland: from, ToIsland: to,
			CACrtPath: f.pki.caPath, ClientCrtPath: f.pki.cliCrt, ClientKeyPath: f.pki.cliKey})
		from = to + 1
	}
	rc.C = client.New(servers, n, 1<<20)
	if err := rc.C.Connect(false); err != nil {
		return nil, fmt.Errorf("connect: %w", err)
	}
	return rc, nil
}

// hostOf is the routing rule of docs/features/deterministic-addressing.md: the server whose
// contiguous island range contains the island.
func (rc *routedClient) hostOf(island uint64) string {
	for i, r := range rc.Ranges {
		if island >= r[0] && island <= r[1] {
			return rc.Hosts[i]
		}
	}
	return ""
}
