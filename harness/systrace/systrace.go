// Package systrace turns an strace log of the storage engine into a resolved
// operation log over {inode, offset, bytes}, replays it, and materialises the
// file-system images a crash at any point of that log could leave behind.
package systrace

import (
	"bufio"
	"fmt"
	"os"
	"path/filepath"
	"regexp"
	"strconv"
	"strings"
)

// StraceArgs are the recorder flags (the traced command is appended).
func StraceArgs(out string) []string {
	return []string{"-f", "-qq", "-xx", "-s", "33554432", "-o", out,
		"-e", "trace=openat,open,creat,read,pread64,write,pwrite64,lseek,fsync,fdatasync,ftruncate,rename,renameat,renameat2,unlink,unlinkat,close,dup,dup2,dup3"}
}

// Kind of a resolved operation.
type Kind int

const (
	Create Kind = iota // a new inode appears under Path
	Trunc              // inode truncated to Off bytes
	Write              // Data written to Inode at Off
	Sync               // fsync/fdatasync of Inode
	Rename             // Path -> Path2
	Unlink             // Path removed
	Mark               // marker text in Path
	Fail               // a syscall on a tracked file returned an error (Path = syscall name, Path2 = errno text)
)

func (k Kind) String() string {
	return [...]string{"create", "trunc", "write", "sync", "rename", "unlink", "mark", "fail"}[k]
}

// Op is one resolved operation.
type Op struct {
	Kind     Kind
	Inode    int
	Off      int64
	Data     []byte
	Path     string
	Path2    string
	Injected bool
	Short    bool // write returned fewer bytes than requested (Data holds what was written)
	Line     int
}

// Log is a resolved op log plus the initial (pre-trace, durable) files.
type Log struct {
	Ops     []Op
	Initial map[string][]byte // files that existed under the root before the trace
	NInodes int
	Calls   map[string]int // number of traced calls per syscall name on tracked files (markers included for write)
	initIno map[string]int
}

var lineRe = regexp.MustCompile(`^(\d+) +(.*)$`)
var callRe = regexp.MustCompile(`^(\w+)\((.*)\) += (-?\d+|\?)(.*)$`)
var resumedRe = regexp.MustCompile(`^<\.\.\. (\w+) resumed>(.*)$`)

func unhex(s string) []byte {
	// s is the inside of a quoted strace string in -xx form: \x41\x42...
	out := make([]byte, 0, len(s)/4)
	for i := 0; i+3 < len(s); {
		if s[i] == '\\' && s[i+1] == 'x' {
			v, err := strconv.ParseUint(s[i+2:i+4], 16, 8)
			if err != nil {
				break
			}
			out = append(out, byte(v))
			i += 4
		} else {
			out = append(out, s[i])
			i++
		}
	}
	return out
}

// splitArgs splits the top-level comma separated arguments, respecting quotes.
func splitArgs(s string) []string {
	var out []string
	depth, inq, start := 0, false, 0
	for i := 0; i < len(s); i++ {
		c := s[i]
		switch {
		case c == '"' && (i == 0 || s[i-1] != '\\'):
			inq = !inq
		case inq:
		case c == '(' || c == '[' || c == '{':
			depth++
		case c == ')' || c == ']' || c == '}':
			depth--
		case c == ',' && depth == 0:
			out = append(out, strings.TrimSpace(s[start:i]))
			start = i + 1
		}
	}
	out = append(out, strings.TrimSpace(s[start:]))
	return out
}

func unq(a string) (string, bool) {
	if len(a) >= 2 && a[0] == '"' {
		e := strings.LastIndex(a, `"`)
		if e > 0 {
			return string(unhex(a[1:e])), !strings.HasSuffix(a, "...")
		}
	}
	return "", false
}

type fdState struct {
	inode  int
	off    int64
	append bool
	path   string
}

// Parse reads an strace log and resolves it against the files under root
// (absolute path). markPath is the marker file (writes to it become Mark ops).
// initial are the files that existed under root before the traced process started.
func Parse(tracePath, root, markPath string, initial map[string][]byte) (*Log, error) {
	f, err := os.Open(tracePath)
	if err != nil {
		return nil, err
	}
	defer f.Close()
	lg := &Log{Initial: map[string][]byte{}, initIno: map[string]int{}, Calls: map[string]int{}}
	names := map[string]int{}
	sizes := map[int]int64{}
	for p, b := range initial {
		lg.Initial[p] = b
		names[p] = lg.NInodes
		lg.initIno[p] = lg.NInodes
		sizes[lg.NInodes] = int64(len(b))
		lg.NInodes++
	}
	fds := map[string]*fdState{} // key pid-agnostic: fd number (threads share the table)
	pending := map[string]string{}
	sc := bufio.NewScanner(f)
	sc.Buffer(make([]byte, 1<<20), 256<<20)
	ln := 0
	tracked := func(p string) bool {
		return p == markPath || strings.HasPrefix(p, root+"/") || p == root
	}
	for sc.Scan() {
		ln++
		m := lineRe.FindStringSubmatch(sc.Text())
		if m == nil {
			continue
		}
		pid, rest := m[1], m[2]
		if strings.HasSuffix(rest, "<unfinished ...>") {
			pending[pid] = strings.TrimSuffix(rest, "<unfinished ...>")
			continue
		}
		if rm := resumedRe.FindStringSubmatch(rest); rm != nil {
			rest = pending[pid] + rm[2]
			delete(pending, pid)
		}
		cm := callRe.FindStringSubmatch(rest)
		if cm == nil {
			continue
		}
		call, argstr, retS, tail := cm[1], cm[2], cm[3], cm[4]
		ret, _ := strconv.ParseInt(retS, 10, 64)
		injected := strings.Contains(tail, "(INJECTED)")
		args := splitArgs(argstr)
		fdOf := func(i int) *fdState {
			if i >= len(args) {
				return nil
			}
			return fds[args[i]]
		}
		fail := func(st *fdState, path string) {
			if ret >= 0 {
				return
			}
			lg.Ops = append(lg.Ops, Op{Kind: Fail, Path: call, Path2: strings.TrimSpace(tail) + " " + path, Injected: injected, Line: ln, Inode: func() int {
				if st != nil {
					return st.inode
				}
				return -1
			}()})
		}
		switch call {
		case "openat", "open", "creat":
			pi := 1
			if call != "openat" {
				pi = 0
			}
			if pi >= len(args) {
				continue
			}
			path, ok := unq(args[pi])
			if !ok || !tracked(path) {
				continue
			}
			lg.Calls["openat"]++
			flags := ""
			if pi+1 < len(args) {
				flags = args[pi+1]
			}
			if call == "creat" {
				flags = "O_CREAT|O_WRONLY|O_TRUNC"
			}
			if ret < 0 {
				fail(nil, path)
				continue
			}
			if strings.Contains(flags, "O_DIRECTORY") {
				continue
			}
			ino, exists := names[path]
			if !exists {
				if !strings.Contains(flags, "O_CREAT") {
					continue
				}
				ino = lg.NInodes
				lg.NInodes++
				names[path] = ino
				sizes[ino] = 0
				if path != markPath {
					lg.Ops = append(lg.Ops, Op{Kind: Create, Inode: ino, Path: path, Line: ln})
				}
			} else if strings.Contains(flags, "O_TRUNC") && !strings.Contains(flags, "O_RDONLY") {
				sizes[ino] = 0
				if path != markPath {
					lg.Ops = append(lg.Ops, Op{Kind: Trunc, Inode: ino, Off: 0, Path: path, Line: ln})
				}
			}
			fds[retS] = &fdState{inode: ino, append: strings.Contains(flags, "O_APPEND"), path: path}
		case "close":
			delete(fds, args[0])
		case "dup", "dup2", "dup3":
			if st := fdOf(0); st != nil && ret >= 0 {
				fds[retS] = st
			}
		case "read":
			if st := fdOf(0); st != nil && ret > 0 {
				st.off += ret
			}
		case "lseek":
			if st := fdOf(0); st != nil {
				lg.Calls["lseek"]++
				if ret >= 0 {
					st.off = ret
				} else {
					fail(st, st.path)
				}
			}
		case "write", "pwrite64":
			st := fdOf(0)
			if st == nil {
				continue
			}
			if ret < 0 {
				fail(st, st.path)
				continue
			}
			ds, _ := unq(args[1])
			data := []byte(ds)
			req := int64(len(data))
			if n, err := strconv.ParseInt(args[2], 10, 64); err == nil {
				req = n
			}
			if int64(len(data)) > ret {
				data = data[:ret]
			}
			if st.path == markPath {
				lg.Ops = append(lg.Ops, Op{Kind: Mark, Path: string(data), Line: ln})
				continue
			}
			off := st.off
			if call == "pwrite64" && len(args) >= 4 {
				off, _ = strconv.ParseInt(args[3], 10, 64)
			} else if st.append {
				off = sizes[st.inode]
			}
			lg.Ops = append(lg.Ops, Op{Kind: Write, Inode: st.inode, Off: off, Data: data, Path: st.path, Short: ret < req, Injected: injected, Line: ln})
			if off+ret > sizes[st.inode] {
				sizes[st.inode] = off + ret
			}
			if call == "write" {
				st.off = off + ret
			}
		case "fsync", "fdatasync":
			st := fdOf(0)
			if st == nil || st.path == markPath {
				continue
			}
			if ret < 0 {
				fail(st, st.path)
				continue
			}
			lg.Ops = append(lg.Ops, Op{Kind: Sync, Inode: st.inode, Path: st.path, Line: ln})
		case "ftruncate":
			st := fdOf(0)
			if st == nil {
				continue
			}
			if ret < 0 {
				fail(st, st.path)
				continue
			}
			n, _ := strconv.ParseInt(args[1], 10, 64)
			sizes[st.inode] = n
			lg.Ops = append(lg.Ops, Op{Kind: Trunc, Inode: st.inode, Off: n, Path: st.path, Line: ln})
		case "rename", "renameat", "renameat2":
			var a, b string
			if call == "rename" {
				a, _ = unq(args[0])
				b, _ = unq(args[1])
			} else if len(args) >= 4 {
				a, _ = unq(args[1])
				b, _ = unq(args[3])
			}
			if !tracked(a) && !tracked(b) {
				continue
			}
			if ret < 0 {
				fail(nil, a+" -> "+b)
				continue
			}
			if ino, ok := names[a]; ok {
				names[b] = ino
				delete(names, a)
				for _, st := range fds {
					if st.path == a {
						st.path = b
					}
				}
			}
			lg.Ops = append(lg.Ops, Op{Kind: Rename, Path: a, Path2: b, Line: ln})
		case "unlink", "unlinkat":
			pi := 0
			if call == "unlinkat" {
				pi = 1
			}
			p, ok := unq(args[pi])
			if !ok || !tracked(p) {
				continue
			}
			if ret < 0 {
				if !strings.Contains(tail, "ENOENT") {
					fail(nil, p)
				}
				continue
			}
			if _, ok := names[p]; ok {
				delete(names, p)
				lg.Ops = append(lg.Ops, Op{Kind: Unlink, Path: p, Line: ln})
			}
		}
	}
	return lg, sc.Err()
}

// ---------------------------------------------------------------------------
// Images

// Image is the content of the tracked files after a (partial) replay.
type Image map[string][]byte

func applyData(buf []byte, op *Op, nbytes int) []byte {
	switch op.Kind {
	case Trunc:
		if int64(len(buf)) > op.Off {
			return buf[:op.Off]
		}
		for int64(len(buf)) < op.Off {
			buf = append(buf, 0)
		}
		return buf
	case Write:
		d := op.Data
		if nbytes >= 0 && nbytes < len(d) {
			d = d[:nbytes]
		}
		end := op.Off + int64(len(d))
		for int64(len(buf)) < end {
			buf = append(buf, 0)
		}
		copy(buf[op.Off:], d)
		return buf
	}
	return buf
}

// names replays the namespace operations of ops[:p].
func (lg *Log) NamesAt(p int) map[string]int {
	names := map[string]int{}
	for path, ino := range lg.initIno {
		names[path] = ino
	}
	for i := 0; i < p && i < len(lg.Ops); i++ {
		op := &lg.Ops[i]
		switch op.Kind {
		case Create:
			names[op.Path] = op.Inode
		case Rename:
			if ino, ok := names[op.Path]; ok {
				names[op.Path2] = ino
				delete(names, op.Path)
			}
		case Unlink:
			delete(names, op.Path)
		}
	}
	return names
}

func (lg *Log) initialData(ino int) []byte {
	for p, i := range lg.initIno {
		if i == ino {
			return append([]byte(nil), lg.Initial[p]...)
		}
	}
	return nil
}

// ProcessDeath returns the files as they are when the process dies right before
// op p completes: ops[:p] applied completely and, if ops[p] is a write, its
// first tornBytes bytes (tornBytes < 0: none of op p).
func (lg *Log) ProcessDeath(p int, tornBytes int) Image {
	names := lg.NamesAt(p)
	img := Image{}
	for path, ino := range names {
		buf := lg.initialData(ino)
		for i := 0; i < p && i < len(lg.Ops); i++ {
			op := &lg.Ops[i]
			if op.Inode == ino && (op.Kind == Write || op.Kind == Trunc) {
				buf = applyData(buf, op, -1)
			}
		}
		if p < len(lg.Ops) && tornBytes > 0 {
			op := &lg.Ops[p]
			if op.Kind == Write && op.Inode == ino {
				buf = applyData(buf, op, tornBytes)
			}
		}
		if buf == nil {
			buf = []byte{}
		}
		img[path] = buf
	}
	return img
}

// PowerLoss returns the files after a power cut right before op p: namespace
// operations of ops[:p] applied (journalled metadata), every inode holding its
// content as of its last fsync before p plus the first keep(inode, n) of the n
// data operations issued on it since, the last kept one torn to torn(inode, len)
// bytes when that returns >= 0.
func (lg *Log) PowerLoss(p int, keep func(ino, n int) int, torn func(ino, size int) int) Image {
	names := lg.NamesAt(p)
	img := Image{}
	for path, ino := range names {
		lastSync := -1
		for i := 0; i < p && i < len(lg.Ops); i++ {
			if lg.Ops[i].Kind == Sync && lg.Ops[i].Inode == ino {
				lastSync = i
			}
		}
		buf := lg.initialData(ino)
		var later []*Op
		for i := 0; i < p && i < len(lg.Ops); i++ {
			op := &lg.Ops[i]
			if op.Inode != ino || (op.Kind != Write && op.Kind != Trunc) {
				continue
			}
			if i < lastSync {
				buf = applyData(buf, op, -1)
			} else {
				later = append(later, op)
			}
		}
		k := keep(ino, len(later))
		if k > len(later) {
			k = len(later)
		}
		for j := 0; j < k; j++ {
			nb := -1
			if j == k-1 && later[j].Kind == Write {
				nb = torn(ino, len(later[j].Data))
			}
			buf = applyData(buf, later[j], nb)
		}
		if buf == nil {
			buf = []byte{}
		}
		img[path] = buf
	}
	return img
}

// InitialInode returns the inode number given to a pre-existing file (-1 if none).
func (lg *Log) InitialInode(path string) int {
	if i, ok := lg.initIno[path]; ok {
		return i
	}
	return -1
}

// Final returns the files after the complete log.
func (lg *Log) Final() Image { return lg.ProcessDeath(len(lg.Ops), -1) }

// WriteTo materialises the image under dir, mapping paths from root to dir.
func (img Image) WriteTo(root, dir string) error {
	for p, b := range img {
		rel, err := filepath.Rel(root, p)
		if err != nil {
			return err
		}
		dst := filepath.Join(dir, rel)
		if err := os.MkdirAll(filepath.Dir(dst), 0o755); err != nil {
			return err
		}
		if err := os.WriteFile(dst, b, 0o644); err != nil {
			return err
		}
	}
	return nil
}

// CompareWithDisk checks that the final image equals the files under root
// (self-check of the recorder). It returns "" or a description of the mismatch.
func (lg *Log) CompareWithDisk(root string, ignore func(path string) bool) string {
	fin := lg.Final()
	seen := map[string]bool{}
	err := filepath.Walk(root, func(p string, info os.FileInfo, err error) error {
		if err != nil || info.IsDir() || (ignore != nil && ignore(p)) {
			return nil
		}
		seen[p] = true
		disk, rerr := os.ReadFile(p)
		if rerr != nil {
			return nil
		}
		img, ok := fin[p]
		if !ok {
			return fmt.Errorf("file %s on disk (%d bytes) but not in replayed image", p, len(disk))
		}
		if string(img) != string(disk) {
			return fmt.Errorf("file %s differs: disk %d bytes, replay %d bytes", p, len(disk), len(img))
		}
		return nil
	})
	if err != nil {
		return err.Error()
	}
	for p := range fin {
		if !seen[p] && (ignore == nil || !ignore(p)) {
			return fmt.Sprintf("file %s in replayed image but not on disk", p)
		}
	}
	return ""
}
