package c29

import (
	"math/rand/v2"
	"strings"
)

// NameSpec describes a generated swamp name compactly (names can be 64 KiB and more).
type NameSpec struct {
	Len   int    `json:"len"`   // total length in bytes, including the two separators
	Class string `json:"class"` // alphabet
	Seed  uint64 `json:"seed"`
}

// MaxNameLen is the largest name the V3 header can describe (16-bit NameLength field).
const MaxNameLen = 65535

var alphabets = map[string][]string{
	"ascii":  strings.Split("a b c d e f g h i j k l m n o p q r s t u v w x y z A Z 0 1 9 - _", " "),
	"utf8-2": {"é", "ő", "ü", "ß", "ñ", "Ж", "λ", "ء"},
	"utf8-3": {"日", "本", "語", "€", "✓", "한", "ก"},
	"utf8-4": {"🙂", "🚀", "𝔘", "🜁", "𐍈"},
	"punct":  {" ", ".", "..", "%", "#", "?", "&", "=", ":", ";", "\\", "\"", "'", "\t", "\n", "\r", "\x00", "*", "~", "+", "|", "<", ">", "[", "]", "{", "}", "$", "@", "!", "^", "`", ","},
	"mixed":  {"a", "Z", "7", "é", "日", "🙂", " ", ".", "%", "\t", "ő", "_", "-", "λ", "*", "\\"},
}

var classNames = []string{"ascii", "ascii", "utf8-2", "utf8-3", "utf8-4", "punct", "mixed", "mixed"}

func genNameSpec(r *rand.Rand) NameSpec {
	ns := NameSpec{Class: classNames[r.IntN(len(classNames))], Seed: r.Uint64()}
	switch x := r.IntN(100); {
	case x < 45:
		ns.Len = 5 + r.IntN(60)
	case x < 60:
		ns.Len = 100 + r.IntN(400)
	case x < 70:
		ns.Len = 1000 + r.IntN(8000)
	case x < 76:
		ns.Len = []int{255, 256, 4095, 4096, 32767, 32768}[r.IntN(6)]
	case x < 86:
		ns.Len = []int{MaxNameLen - 2, MaxNameLen - 1, MaxNameLen, MaxNameLen}[r.IntN(4)]
	default:
		ns.Len = []int{MaxNameLen + 1, MaxNameLen + 2, MaxNameLen + 1 + r.IntN(5000), 70000, 2*(MaxNameLen+1) + 7}[r.IntN(5)]
	}
	return ns
}

// Build returns the name: three non-empty parts without a separator inside, exactly Len bytes.
func (ns NameSpec) Build() string {
	r := rand.New(rand.NewPCG(ns.Seed, 29))
	al := alphabets[ns.Class]
	if al == nil {
		al = alphabets["ascii"]
	}
	body := ns.Len - 2
	if body < 3 {
		body = 3
	}
	// split the body into three parts, each at least one byte
	a := 1 + r.IntN(body-2)
	b := 1 + r.IntN(body-a-1)
	lens := []int{a, b, body - a - b}
	r.Shuffle(3, func(i, j int) { lens[i], lens[j] = lens[j], lens[i] })
	parts := make([]string, 3)
	for i, l := range lens {
		var sb strings.Builder
		// first byte is always a plain letter so that a part is never "*" alone (wildcard) or empty
		sb.WriteByte("spw"[i])
		for sb.Len() < l {
			ch := al[r.IntN(len(al))]
			if sb.Len()+len(ch) > l {
				ch = "x"
			}
			sb.WriteString(ch)
		}
		parts[i] = sb.String()
	}
	return strings.Join(parts, "/")
}

func lenClass(n int) string {
	if n > MaxNameLen {
		return "len>65535"
	}
	return "len<=65535"
}
