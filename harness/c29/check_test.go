// C29 — fast swamp-name discovery agrees with the stored name.
//
// Monitor, file level: storage files are written by the real engine pieces for generated
// three-part names (ASCII, 2/3/4-byte UTF-8, punctuation and control characters, lengths from
// a few bytes up to and beyond the 16-bit name length field of the header): current-format
// files through the real V2 chronicler (fresh, appended over several sessions, after every
// compaction entry point: inline on write, on close, load self-heal, ForceCompaction,
// v2.Compactor, hydraidectl compact), legacy V2-format files built the way the repository's
// compatibility tests build them (Version2 header, real writer appending the OpMetadata name
// entry and data entries) and then appended to, compacted and upgraded by hydraidectl's
// migrateFileV2Format (with and without a stale .fmtmigrate file), and files produced by the
// V1→V2 migrator from folders written by the real legacy engine. After every stage
// v2.ReadSwampName, FileReader.GetSwampName and LoadIndex must return the name used to write.
//
// Directory level: real swamps of a real engine (rig) lay out a data directory over two
// server sessions (writes, inline and RPC compaction, destroys, delete-all, re-creation, with
// legacy-format and migrated files planted beforehand), followed by hydraidectl compact and
// format migration over every file; after each phase explorer.New(dir).Scan plus every
// listing (sanctuaries→realms→paged swamps, flat, ListAllSwamps, GetSwampDetail) must contain
// exactly the swamps whose file is on disk, as (sanctuary, realm, swamp, island).
package c29

import (
	"fmt"
	"strings"
	"testing"
	"time"

	"verifharness/rig"
)

type batch struct {
	Files []FileCase `json:"files,omitempty"`
	Dir   *DirCase   `json:"dir,omitempty"`
}

func doFile(c *rig.Check, fc *FileCase) {
	viol, nontrivial, err := runFile(c, fc)
	c.Case(rig.Dump(fc), nontrivial)
	c.Seen("origins", fc.Origin)
	for _, st := range fc.Then {
		c.Seen("stages", st)
	}
	c.Seen("name_length_classes", nameLenBucket(fc.Name.Len))
	c.Seen("name_alphabets", fc.Name.Class)
	c.Sample(fc)
	if err != nil {
		c.Inconclusive("file case could not be set up: " + err.Error())
		return
	}
	for _, v := range viol {
		c.Violate(v.sig, v.what, map[string]any{"file": fc})
	}
}

func doDir(c *rig.Check, dc *DirCase) {
	viol, n, err := runDir(c, dc)
	c.Case(rig.Dump(dc), n > 0)
	c.Count("directories", 1)
	for _, s := range dc.Swamps {
		c.Seen("dir_plans", s.Origin+":"+s.Plan)
	}
	if err != nil {
		c.Inconclusive("directory case could not be set up: " + err.Error())
		return
	}
	for _, v := range viol {
		c.Violate(v.sig, v.what, map[string]any{"dir": dc})
	}
}

func nameLenBucket(n int) string {
	switch {
	case n <= 64:
		return "<=64"
	case n <= 512:
		return "65-512"
	case n < MaxNameLen-2:
		return "513-65532"
	case n <= MaxNameLen:
		return "65533-65535"
	default:
		return ">65535"
	}
}

func TestCheck(t *testing.T) {
	c := rig.NewCheck(t, "C29", "exploration")
	defer c.Finish()
	c.Rule = "file case = (generated name, origin v3|v2fmt|migrated, up to three follow-up stages: append, compaction entry point, format migration); non-trivial = the name was read back from an existing file at least once; directory case = one data directory laid out by two engine sessions plus the CLI tools, scanned five times; non-trivial = it held at least one swamp; distinct = distinct case JSON"
	c.Assumptions = []string{
		"names are three non-empty parts without a separator inside (name.Load cuts anything else down to three parts before the engine sees it) and valid UTF-8 (protobuf string)",
		"for a name longer than 65535 bytes (the header's 16-bit length field) the engine may refuse to create the file; a file that does exist must read back the full name",
		"FileReader.GetSwampName on a legacy V2-format file may return the empty string (documented: available only after LoadIndex); ReadSwampName and LoadIndex must return the name",
		"'present on disk' = the swamp's .hyd file exists at its hashed path when the explorer scans (server stopped)",
	}
	c.MinNontrivial = c.N(100, 2500)

	if c.IsChild() {
		var b batch
		c.ChildSpec(&b)
		for i := range b.Files {
			doFile(c, &b.Files[i])
		}
		if b.Dir != nil {
			doDir(c, b.Dir)
		}
		return
	}
	if p := c.ReplayPath(); p != "" {
		var w struct {
			Witness struct {
				File *FileCase `json:"file"`
				Dir  *DirCase  `json:"dir"`
			} `json:"witness"`
		}
		rig.ReadJSON(p, &w)
		if w.Witness.File != nil {
			doFile(c, w.Witness.File)
		}
		if w.Witness.Dir != nil {
			doDir(c, w.Witness.Dir)
		}
		return
	}

	var specs []any
	files := fixedFiles()
	for i := 0; i < c.N(200, 5000); i++ {
		files = append(files, genFileCase(c, i))
	}
	per := c.N(10, 100)
	for i := 0; i < len(files); i += per {
		j := min(i+per, len(files))
		specs = append(specs, batch{Files: files[i:j]})
	}
	for i := 0; i < c.N(10, 200); i++ {
		dc := genDirCase(c, i)
		specs = append(specs, batch{Dir: &dc})
	}
	results := c.Fanout(specs, rig.FanoutOpts{Par: 16, Timeout: 15 * time.Minute})
	for _, r := range results {
		if r.TimedOut {
			c.Inconclusive("child watchdog fired")
			continue
		}
		if len(r.Fatal) > 0 {
			c.Violate("process-died:"+strings.ReplaceAll(strings.TrimSpace(firstWords(r.Fatal[0])), " ", "-"), "a child process died: "+r.Fatal[0], map[string]any{"log": r.LogPath, "batch": r.Spec})
			continue
		}
		if r.NoPartial || r.ExitErr != nil {
			c.Inconclusive(fmt.Sprintf("child %d ended without a result (%v), log %s", r.Index, r.ExitErr, r.LogPath))
		}
	}
}

// fixedFiles: every origin × every stage once with a short and an at-the-limit name, plus the
// names just beyond the limit.
func fixedFiles() []FileCase {
	var out []FileCase
	idx := 9_000_000
	for _, origin := range []string{"v3", "v2fmt", "migrated"} {
		for k, st := range stageNames {
			ln := 24
			if k%3 == 1 {
				ln = MaxNameLen
			}
			out = append(out, FileCase{Idx: idx, Origin: origin, Then: []string{st}, Seed: uint64(idx) * 7919, Name: NameSpec{Len: ln, Class: classNames[k%len(classNames)], Seed: uint64(idx)}})
			idx++
		}
		for _, ln := range []int{MaxNameLen + 1, MaxNameLen + 2, 70000} {
			out = append(out, FileCase{Idx: idx, Origin: origin, Then: []string{"append", "compactor-force"}, Seed: uint64(idx) * 7919, Name: NameSpec{Len: ln, Class: "ascii", Seed: uint64(idx)}})
			idx++
		}
	}
	return out
}
