package c29

import (
	"context"
	"fmt"
	"io/fs"
	"math/rand/v2"
	"os"
	"path/filepath"
	"sort"
	"strings"

	v2 "github.com/hydraide/hydraide/app/core/hydra/swamp/chronicler/v2"
	"github.com/hydraide/hydraide/app/core/hydra/swamp/chronicler/v2/migrator"
	hcmd "github.com/hydraide/hydraide/app/hydraidectl/cmd"
	"github.com/hydraide/hydraide/app/name"
	"github.com/hydraide/hydraide/app/server/explorer"
	hydrapb "github.com/hydraide/hydraide/sdk/go/hydraidego/v3/hydraidepbgo"
	"google.golang.org/protobuf/proto"

	"verifharness/c23"
	"verifharness/rig"
)

// DirSwamp is one swamp of a data directory and what happens to it.
type DirSwamp struct {
	Name   NameSpec `json:"name"`
	Origin string   `json:"origin"` // engine | v2fmt | migrated (the latter two are on disk before the server starts)
	Plan   string   `json:"plan"`
}

// DirCase is one data directory.
type DirCase struct {
	Idx    int        `json:"idx"`
	Seed   uint64     `json:"seed"`
	Swamps []DirSwamp `json:"swamps"`
}

// plans: what the two server sessions (A, B) do with a swamp
var plans = []string{
	"keep",          // written in A
	"keep-append",   // written in A, appended in B
	"inline",        // written, flushed, overwritten, flushed in A: the write path compacts
	"rpc-compact-a", // written and compacted through the CompactSwamp RPC in A
	"rpc-compact-b", // written in A, compacted through the RPC in B
	"destroy-a",     // written, flushed and destroyed in A
	"destroy-b",     // written in A, destroyed in B
	"delete-all-a",  // written and flushed in A, then every key deleted (the empty swamp removes itself)
	"delete-all-b",
	"recreate",  // written and destroyed in A, written again in B
	"late",      // created only in B
	"untouched", // (planted files) never opened by the server
}

func genDirCase(c *rig.Check, idx int) DirCase {
	r := c.Rand(1_000_000 + idx)
	dc := DirCase{Idx: idx, Seed: r.Uint64()}
	n := 8 + r.IntN(8)
	for i := 0; i < n; i++ {
		ds := DirSwamp{Name: genNameSpec(r), Origin: "engine"}
		if ds.Name.Len > 9000 && ds.Name.Len < MaxNameLen-2 {
			ds.Name.Len = 20 + r.IntN(200) // keep most names moderate; the limit cases stay
		}
		switch x := r.IntN(10); {
		case x < 2:
			ds.Origin = "v2fmt"
		case x < 3:
			ds.Origin = "migrated"
		}
		for {
			ds.Plan = plans[r.IntN(len(plans))]
			if ds.Plan == "untouched" && ds.Origin == "engine" {
				continue
			}
			if ds.Plan == "late" && ds.Origin != "engine" {
				continue
			}
			break
		}
		// every directory has swamps that vanish / come back between two scans
		if forced := []string{"destroy-b", "delete-all-b", "recreate"}; i < len(forced) {
			ds.Origin, ds.Plan = "engine", forced[i]
			if ds.Name.Len > MaxNameLen {
				ds.Name.Len = 30 + i
			}
		}
		dc.Swamps = append(dc.Swamps, ds)
	}
	return dc
}

func wire[T proto.Message](m T) T {
	b, err := proto.Marshal(m)
	if err != nil {
		panic("request not encodable: " + err.Error())
	}
	out := m.ProtoReflect().New().Interface().(T)
	if err := proto.Unmarshal(b, out); err != nil {
		panic("request not decodable: " + err.Error())
	}
	return out
}

type dirRun struct {
	c     *rig.Check
	dc    *DirCase
	root  string
	data  string
	names []string
	r     *rig.Rig
	gen   int
	viol  []violation
	// rejected[i]: the server refused to create the swamp (Set returned an error)
	rejected map[int]bool
	// set per scan: a file written for an over-limit name is on disk
	overLimitOnDisk bool
	ex              *explorer.Explorer // the explorer object reused for every scan of the session
	scans           int
}

func (d *dirRun) hyd(i int) string {
	n := d.names[i]
	return name.Load(n).GetFullHashPath(d.data, rig.Island(n), 1, 1000) + ".hyd"
}

func (d *dirRun) add(sig, what string) {
	if d.overLimitOnDisk {
		// one input class whatever the phase or listing: the directory holds a file written for
		// a name that does not fit the header's 16-bit length field
		sig = strings.SplitN(sig, ":", 2)[0] + ":len>65535-file-in-directory"
	}
	for _, v := range d.viol {
		if v.sig == sig {
			return
		}
	}
	d.viol = append(d.viol, violation{sig, what})
}

func (d *dirRun) set(i, n int) {
	d.gen++
	kvs := make([]*hydrapb.KeyValuePair, n)
	for k := range kvs {
		v := fmt.Sprintf("g%d-%d", d.gen, k)
		kvs[k] = &hydrapb.KeyValuePair{Key: fmt.Sprintf("k%04d", k), StringVal: &v}
	}
	nm := d.names[i]
	_, err := d.r.GW.Set(context.Background(), wire(&hydrapb.SetRequest{Swamps: []*hydrapb.SwampRequest{{IslandID: rig.Island(nm), SwampName: nm, CreateIfNotExist: true, Overwrite: true, KeyValues: kvs}}}))
	if err != nil {
		d.rejected[i] = true
		d.c.Seen("set_errors", lenClass(len(nm))+":"+firstWords(err.Error()))
	}
}

func firstWords(s string) string {
	if len(s) > 70 {
		s = s[:70]
	}
	return s
}

func (d *dirRun) flush(i int) {
	nm := d.names[i]
	sw, err := d.r.Zeus.GetHydra().SummonSwamp(context.Background(), rig.Island(nm), name.Load(nm))
	if err != nil || sw == nil {
		return
	}
	sw.BeginVigil()
	sw.WriteTreasuresToFilesystem()
	sw.CeaseVigil()
}

func (d *dirRun) destroy(i int) {
	nm := d.names[i]
	_, _ = d.r.GW.Destroy(context.Background(), wire(&hydrapb.DestroyRequest{IslandID: rig.Island(nm), SwampName: nm}))
}

func (d *dirRun) compactRPC(i int) {
	nm := d.names[i]
	_, _ = d.r.GW.CompactSwamp(context.Background(), wire(&hydrapb.CompactSwampRequest{IslandID: rig.Island(nm), SwampName: nm}))
}

func (d *dirRun) deleteAll(i int) {
	nm := d.names[i]
	var keys []string
	for k := 0; k < 400; k++ {
		keys = append(keys, fmt.Sprintf("k%04d", k))
	}
	_, _ = d.r.GW.Delete(context.Background(), wire(&hydrapb.DeleteRequest{Swamps: []*hydrapb.DeleteRequest_SwampKeys{{IslandID: rig.Island(nm), SwampName: nm, Keys: keys}}}))
}

type listed struct{ sanctuary, realm, swamp, island string }

func (l listed) String() string {
	return fmt.Sprintf("%s/%s/%s@%s", clip(l.sanctuary), clip(l.realm), clip(l.swamp), l.island)
}

// scan runs the explorer over the data directory and compares every listing with the files on disk.
func (d *dirRun) scan(stage string) {
	// what is on disk
	want := map[listed]int{}
	known := map[string]int{}
	for i := range d.names {
		known[d.hyd(i)] = i
	}
	hydFiles := 0
	_ = filepath.WalkDir(d.data, func(p string, e fs.DirEntry, err error) error {
		if err != nil || e.IsDir() || filepath.Ext(p) != ".hyd" {
			return nil
		}
		hydFiles++
		i, ok := known[p]
		if !ok {
			d.add("explorer:"+stage+":unexpected-file-on-disk", "a .hyd file that belongs to no swamp of the case: "+p)
			return nil
		}
		parts := strings.SplitN(d.names[i], "/", 3)
		want[listed{parts[0], parts[1], parts[2], fmt.Sprint(rig.Island(d.names[i]))}] = i
		return nil
	})
	d.overLimitOnDisk = false
	for _, i := range want {
		if len(d.names[i]) > MaxNameLen {
			d.overLimitOnDisk = true
		}
	}
	d.c.Count("hyd_files_scanned", int64(hydFiles))
	// a fresh explorer (hydraidectl explore) and the one explorer object that lives through the
	// whole session and is rescanned after every change of the directory (the server keeps one)
	if d.ex == nil {
		d.ex = explorer.New(d.data)
	}
	d.scans++
	for _, ec := range []struct {
		ex  *explorer.Explorer
		who string
	}{{explorer.New(d.data), "fresh"}, {d.ex, "reused"}} {
		d.compareExplorer(ec.ex, ec.who, stage, want, hydFiles)
	}
	d.c.Count("swamps_on_disk_compared", int64(len(want)))
	// the fast name lookup on every file of the directory
	for _, i := range want {
		got, err := v2.ReadSwampName(d.hyd(i))
		if err != nil || got != d.names[i] {
			e := "differs"
			if err != nil {
				e = "error"
			}
			d.add(fmt.Sprintf("name:dir-%s:%s:ReadSwampName:%s", d.dc.Swamps[i].Origin, stage, e), fmt.Sprintf("ReadSwampName(%s)=%s err=%v, written by %s", d.hyd(i), clip(got), err, clip(d.names[i])))
		}
	}
}

// compareExplorer scans with ex and compares every listing API with the files on disk.
func (d *dirRun) compareExplorer(ex *explorer.Explorer, who, stage string, want map[listed]int, hydFiles int) {
	if err := ex.Scan(context.Background()); err != nil {
		d.add("explorer:"+who+":"+stage+":scan-error", "Scan failed: "+err.Error())
		return
	}
	d.c.Count("explorer_scans", 1)
	compare := func(api string, got map[listed]bool) {
		missing := 0
		for l, i := range want {
			if !got[l] {
				missing++
				d.add(fmt.Sprintf("explorer:%s:%s:%s:missing:%s", who, stage, api, d.dc.Swamps[i].Origin), fmt.Sprintf("%s does not list %s although its file is on disk (%s)", api, l, d.hyd(i)))
			}
		}
		extra := 0
		for l := range got {
			if _, ok := want[l]; !ok {
				extra++
			}
		}
		// a file listed under a wrong name shows up as one missing and one extra entry; only
		// extras beyond that are a finding of their own
		if extra > missing {
			for l := range got {
				if _, ok := want[l]; !ok {
					d.add(fmt.Sprintf("explorer:%s:%s:%s:extra", who, stage, api), fmt.Sprintf("%s lists %s, which no file on disk belongs to", api, l))
				}
			}
		}
	}
	// hierarchical walk: sanctuaries -> realms -> paged swamp listing
	paged, all, detail := map[listed]bool{}, map[listed]bool{}, map[listed]bool{}
	var sumSwampCount int64
	for _, s := range ex.ListSanctuaries() {
		sumSwampCount += s.SwampCount
		for _, rl := range ex.ListRealms(s.Name) {
			for off := int64(0); ; off += 3 {
				res := ex.ListSwamps(&explorer.SwampFilter{Sanctuary: s.Name, Realm: rl.Name, Offset: off, Limit: 3})
				for _, sd := range res.Swamps {
					paged[listed{sd.Sanctuary, sd.Realm, sd.Swamp, sd.IslandID}] = true
					if det, err := ex.GetSwampDetail(sd.Sanctuary, sd.Realm, sd.Swamp); err == nil && det != nil {
						detail[listed{det.Sanctuary, det.Realm, det.Swamp, det.IslandID}] = true
					}
				}
				if len(res.Swamps) == 0 || off+3 >= res.Total {
					break
				}
			}
		}
		for _, sd := range ex.ListAllSwamps(s.Name, "") {
			all[listed{sd.Sanctuary, sd.Realm, sd.Swamp, sd.IslandID}] = true
		}
	}
	flat := map[listed]bool{}
	for off := int64(0); ; off += 1000 {
		res := ex.ListSwamps(&explorer.SwampFilter{Offset: off, Limit: 1000})
		for _, sd := range res.Swamps {
			flat[listed{sd.Sanctuary, sd.Realm, sd.Swamp, sd.IslandID}] = true
		}
		if len(res.Swamps) == 0 || off+1000 >= res.Total {
			break
		}
	}
	compare("ListSwamps(paged-by-realm)", paged)
	compare("ListSwamps(flat)", flat)
	compare("ListAllSwamps", all)
	compare("GetSwampDetail", detail)
	if sumSwampCount != int64(len(want)) {
		d.add(fmt.Sprintf("explorer:%s:%s:ListSanctuaries:swamp-count", who, stage), fmt.Sprintf("sanctuary SwampCount sums to %d, %d swamp files on disk", sumSwampCount, len(want)))
	}
	st := ex.GetScanStatus()
	if st.TotalFiles != int64(hydFiles) || st.ErrorCount != 0 {
		d.add(fmt.Sprintf("explorer:%s:%s:scan-status", who, stage), fmt.Sprintf("scan status: total=%d scanned=%d errors=%d, %d .hyd files on disk", st.TotalFiles, st.ScannedFiles, st.ErrorCount, hydFiles))
	}
	// totals at realm and sanctuary level, and sizes
	var realmSum, sizeFiles int64
	for _, s := range ex.ListSanctuaries() {
		for _, rl := range ex.ListRealms(s.Name) {
			realmSum += rl.SwampCount
		}
		if si, err := ex.GetSize(s.Name, "", ""); err == nil && si != nil {
			sizeFiles += si.FileCount
		}
	}
	if realmSum != int64(len(want)) {
		d.add(fmt.Sprintf("explorer:%s:%s:ListRealms:swamp-count", who, stage), fmt.Sprintf("realm SwampCount sums to %d, %d swamp files on disk", realmSum, len(want)))
	}
	if sizeFiles != int64(len(want)) {
		d.add(fmt.Sprintf("explorer:%s:%s:GetSize:file-count", who, stage), fmt.Sprintf("GetSize FileCount sums to %d, %d swamp files on disk", sizeFiles, len(want)))
	}
	// a swamp of the case whose file is not on disk must not be answered for
	for i, n := range d.names {
		parts := strings.SplitN(n, "/", 3)
		if _, on := want[listed{parts[0], parts[1], parts[2], fmt.Sprint(rig.Island(n))}]; on || len(n) > MaxNameLen {
			continue
		}
		if det, err := ex.GetSwampDetail(parts[0], parts[1], parts[2]); err == nil && det != nil {
			d.add(fmt.Sprintf("explorer:%s:%s:GetSwampDetail:answers-for-absent-swamp:%s", who, stage, d.dc.Swamps[i].Plan), fmt.Sprintf("GetSwampDetail returns %s (file %s) although no such file is on disk", clip(n), det.FilePath))
		}
	}
}

// plant puts the pre-existing files (legacy format, migrated from V1) on disk before the server starts.
func (d *dirRun) plant() error {
	r := rand.New(rand.NewPCG(d.dc.Seed, 2))
	needMigrate := false
	for i, ds := range d.dc.Swamps {
		switch ds.Origin {
		case "v2fmt":
			fr := &fileRun{c: d.c, name: d.names[i], hyd: d.hyd(i)}
			if err := fr.buildLegacy(1 + r.IntN(20)); err != nil {
				return err
			}
		case "migrated":
			sp := c23.SwampSpec{Name: d.names[i], MaxFile: []int64{60, 8192}[r.IntN(2)]}
			for k := 0; k < 1+r.IntN(12); k++ {
				sp.Ops = append(sp.Ops, c23.Op{Op: "set", Key: fmt.Sprintf("k%04d", k), Kind: "string", Seed: r.Uint64(), Size: 1 + r.IntN(30)})
			}
			sp.Ops = append(sp.Ops, c23.Op{Op: "close"})
			c23.BuildV1(d.data, &sp)
			needMigrate = true
		}
	}
	if needMigrate {
		m, err := migrator.New(migrator.Config{DataPath: d.data, Verify: true, DeleteOld: true, Parallel: 2})
		if err != nil {
			return err
		}
		if _, err := m.Run(); err != nil {
			return err
		}
	}
	return nil
}

func (d *dirRun) session(phase string) {
	d.r = rig.New(rig.Options{Root: d.root})
	for i, ds := range d.dc.Swamps {
		p := ds.Plan
		a := phase == "a"
		switch {
		case p == "untouched":
		case p == "keep" && a, p == "keep-append", p == "rpc-compact-b" && a, p == "destroy-b" && a, p == "delete-all-b" && a, p == "late" && !a:
			d.set(i, 3+i%9)
		case p == "inline" && a:
			d.set(i, 130)
			d.flush(i)
			d.set(i, 130)
			d.flush(i)
			d.set(i, 130)
			d.flush(i)
		case p == "rpc-compact-a" && a:
			d.set(i, 5+i%7)
			d.flush(i)
			d.set(i, 5+i%7)
			d.compactRPC(i)
		case p == "rpc-compact-b" && !a:
			d.set(i, 4)
			d.compactRPC(i)
		case p == "destroy-a" && a, p == "recreate" && a:
			d.set(i, 6)
			d.flush(i)
			d.destroy(i)
		case p == "destroy-b" && !a:
			d.destroy(i)
		case p == "delete-all-a" && a:
			d.set(i, 7)
			d.flush(i)
			d.deleteAll(i)
		case p == "delete-all-b" && !a:
			d.deleteAll(i)
		case p == "recreate" && !a:
			d.set(i, 9)
		}
	}
	d.r.Stop()
	d.r = nil
}

// runDir executes one directory case.
func runDir(c *rig.Check, dc *DirCase) (viol []violation, swampsSeen int, err error) {
	root := rig.TempRoot("c29d")
	defer rig.RemoveAll(root)
	d := &dirRun{c: c, dc: dc, root: root, data: filepath.Join(root, "data"), rejected: map[int]bool{}}
	seen := map[string]bool{}
	for i := range dc.Swamps {
		n := dc.Swamps[i].Name.Build()
		for seen[n] {
			n += "x"
		}
		seen[n] = true
		d.names = append(d.names, n)
	}
	_ = os.MkdirAll(d.data, 0o755)
	if err := d.plant(); err != nil {
		return nil, 0, err
	}
	d.scan("planted")
	d.session("a")
	d.scan("after-session-a")
	d.session("b")
	d.scan("after-session-b")
	// hydraidectl compact over every file, then hydraidectl migrate v2-migrate-format over every file
	var files []string
	for i := range d.names {
		if _, e := os.Stat(d.hyd(i)); e == nil {
			files = append(files, d.hyd(i))
		}
	}
	sort.Strings(files)
	for k, f := range files {
		thr := 0.3
		if k%2 == 0 {
			thr = 0.0001
		}
		_ = hcmd.VerifCompactSwamp(f, thr)
	}
	d.scan("after-cli-compact")
	for _, f := range files {
		_, _, _, _ = hcmd.VerifMigrateFileV2Format(f)
	}
	d.scan("after-cli-format-migrate")
	for range d.rejected {
		c.Count("swamps_refused_by_the_server", 1)
	}
	return d.viol, len(d.names), nil
}
