package c29

import (
	"fmt"
	"math/rand/v2"
	"os"
	"path/filepath"
	"syscall"

	v2 "github.com/hydraide/hydraide/app/core/hydra/swamp/chronicler/v2"
	"github.com/hydraide/hydraide/app/core/hydra/swamp/chronicler/v2/migrator"
	"github.com/hydraide/hydraide/app/core/hydra/swamp/treasure"
	"github.com/hydraide/hydraide/app/core/hydra/swamp/treasure/guard"
	hcmd "github.com/hydraide/hydraide/app/hydraidectl/cmd"

	"verifharness/c23"
	"verifharness/rig"
	"verifharness/stor"
)

// FileCase is one storage file: a name, how the file comes into being, and what happens to it afterwards.
type FileCase struct {
	Idx    int      `json:"idx"`
	Name   NameSpec `json:"name"`
	Origin string   `json:"origin"` // v3 | v2fmt | migrated
	Then   []string `json:"then"`   // stages applied after creation, in order
	Seed   uint64   `json:"seed"`
}

// stages that can follow the creation of a file
var stageNames = []string{
	"append",             // one more engine session appending records
	"append-sync",        // records appended and synced, writer still open while the name is read
	"inline",             // overwrite until the write path compacts inline
	"close",              // fragmentation that only the close path sees
	"loadheal",           // fragmented file healed by the next load
	"force",              // chronicler.ForceCompaction (CompactSwamp RPC)
	"compactor",          // v2.Compactor.Compact at the default threshold
	"compactor-force",    // v2.Compactor.ForceCompact
	"compactor-ifneeded", // v2.Compactor.CompactIfNeeded
	"cli-compact",        // hydraidectl compact (compactSwamp)
	"delete-all-force",   // every record deleted, then a forced compaction: file without blocks
	"fmtmigrate",         // hydraidectl migrate v2-migrate-format (migrateFileV2Format)
	"fmtmigrate-stale-empty",
	"fmtmigrate-stale-cut",
	"fmtmigrate-stale-full",
}

func genFileCase(c *rig.Check, idx int) FileCase {
	r := c.Rand(idx)
	fc := FileCase{Idx: idx, Name: genNameSpec(r), Seed: r.Uint64()}
	switch x := r.IntN(10); {
	case x < 5:
		fc.Origin = "v3"
	case x < 9:
		fc.Origin = "v2fmt"
	default:
		fc.Origin = "migrated"
	}
	n := r.IntN(4)
	if fc.Origin == "v2fmt" && n == 0 {
		n = 1
	}
	for i := 0; i < n; i++ {
		fc.Then = append(fc.Then, stageNames[r.IntN(len(stageNames))])
	}
	return fc
}

type violation struct{ sig, what string }

type fileRun struct {
	c       *rig.Check
	fc      *FileCase
	name    string
	path    string // swamp path without ".hyd"
	hyd     string
	gen     int
	keys    int
	viol    []violation
	refused bool // the engine refused to create the file (name beyond the format limit)
	checks  int
}

func inode(p string) uint64 {
	fi, err := os.Stat(p)
	if err != nil {
		return 0
	}
	if st, ok := fi.Sys().(*syscall.Stat_t); ok {
		return st.Ino
	}
	return 0
}

func describeMismatch(got, want string) string {
	switch {
	case got == "":
		return "empty"
	case len(got) < len(want) && want[:len(got)] == got:
		return "truncated"
	default:
		return "differs"
	}
}

func clip(s string) string {
	if len(s) > 80 {
		return fmt.Sprintf("%q…(%d bytes)", s[:80], len(s))
	}
	return fmt.Sprintf("%q", s)
}

// check reads the name back through every fast path and compares it with the name used to write.
func (fr *fileRun) check(stage string) {
	if _, err := os.Stat(fr.hyd); err != nil {
		if len(fr.name) > MaxNameLen {
			// nothing on disk for a name the header cannot describe: the engine refused it
			fr.refused = true
			return
		}
		fr.add(stage, "file", "missing", "the storage file does not exist after stage "+stage)
		return
	}
	if len(fr.viol) > 0 {
		return
	}
	fr.checks++
	format := "v3"
	bad := func(api, outcome, what string) {
		fr.add(stage, api, outcome, what)
	}
	got, err := v2.ReadSwampName(fr.hyd)
	if err != nil {
		bad("ReadSwampName", "error", "ReadSwampName failed: "+err.Error())
	} else if got != fr.name {
		bad("ReadSwampName", describeMismatch(got, fr.name), fmt.Sprintf("ReadSwampName=%s, written by %s", clip(got), clip(fr.name)))
	}
	rd, err := v2.NewFileReader(fr.hyd)
	if err != nil {
		bad("NewFileReader", "error", "NewFileReader failed: "+err.Error())
		return
	}
	defer rd.Close()
	if !rd.GetHeader().IsV3() {
		format = "v2fmt"
	}
	fr.c.Seen("formats_checked", format)
	g := rd.GetSwampName()
	// documented: for legacy-format files GetSwampName is empty until LoadIndex has run
	if g != fr.name && !(format == "v2fmt" && g == "") {
		bad("GetSwampName", describeMismatch(g, fr.name), fmt.Sprintf("FileReader.GetSwampName=%s, written by %s", clip(g), clip(fr.name)))
	}
	_, ln, err := rd.LoadIndex()
	if err != nil {
		bad("LoadIndex", "error", "LoadIndex failed: "+err.Error())
	} else if ln != fr.name {
		bad("LoadIndex", describeMismatch(ln, fr.name), fmt.Sprintf("LoadIndex name=%s, written by %s", clip(ln), clip(fr.name)))
	}
}

// add records the first mismatch of a file case only: once a file carries a wrong name every
// later stage and every other lookup path repeats the same finding.
func (fr *fileRun) add(stage, api, outcome, what string) {
	if len(fr.viol) > 0 {
		return
	}
	sig := fmt.Sprintf("name:%s:%s:%s:%s", fr.fc.Origin, stage, api, outcome)
	if len(fr.name) > MaxNameLen {
		// one input class, whatever the stage: the name does not fit the header's 16-bit length field
		sig = fmt.Sprintf("name:%s:len>65535:%s:%s", fr.fc.Origin, api, outcome)
	}
	fr.viol = append(fr.viol, violation{sig, what + " (after stage " + stage + ")"})
}

func (fr *fileRun) ents(n int) []stor.Ent {
	fr.gen++
	if n > fr.keys {
		fr.keys = n
	}
	out := make([]stor.Ent, n)
	for i := range out {
		out[i] = stor.Ent{Key: fmt.Sprintf("k%04d", i), Val: fmt.Sprintf("g%d-%d", fr.gen, i)}
	}
	return out
}

// fragment leaves a closed file with about as many dead as live entries and no compaction so far.
func (fr *fileRun) fragment() {
	s := stor.Open(fr.path, fr.name)
	s.Chron.RegisterLiveCountFunction(func() int { return 1 << 40 }) // keeps the write/close triggers quiet
	n := 110 + int(fr.fc.Seed%40)
	s.Write(fr.ents(n))
	s.Write(fr.ents(n))
	_ = s.Chron.Close()
}

func (fr *fileRun) observed(entry string, before uint64) {
	if after := inode(fr.hyd); after != 0 && after != before {
		fr.c.Seen("compaction_entry_points_that_rewrote_the_file", entry)
	}
}

func encodeTreasure(key, val string) []byte {
	t := treasure.New(nil)
	g := t.StartTreasureGuard(true, guard.BodyAuthID)
	t.BodySetKey(g, key)
	t.SetContentString(g, val)
	b, _ := t.ConvertToByte(g)
	t.ReleaseTreasureGuard(g)
	return b
}

// buildLegacy writes a legacy V2-format file the way the repository's compatibility tests do:
// a Version2 header without name, then the real writer appending the OpMetadata name entry
// followed by data entries.
func (fr *fileRun) buildLegacy(n int) error {
	if err := os.MkdirAll(filepath.Dir(fr.hyd), 0o755); err != nil {
		return err
	}
	h := v2.NewFileHeader()
	h.Version = v2.Version2
	h.NameLength = 0
	if err := os.WriteFile(fr.hyd, h.Serialize(), 0o644); err != nil {
		return err
	}
	w, err := v2.NewFileWriter(fr.hyd, v2.DefaultMaxBlockSize)
	if err != nil {
		return err
	}
	if err := w.WriteEntry(v2.Entry{Operation: v2.OpMetadata, Key: v2.MetadataEntryKey, Data: []byte(fr.name)}); err != nil {
		w.Close()
		return err
	}
	for _, e := range fr.ents(n) {
		if err := w.WriteEntry(v2.Entry{Operation: v2.OpInsert, Key: e.Key, Data: encodeTreasure(e.Key, e.Val)}); err != nil {
			w.Close()
			return err
		}
	}
	return w.Close()
}

func (fr *fileRun) create(root string) error {
	r := rand.New(rand.NewPCG(fr.fc.Seed, 1))
	switch fr.fc.Origin {
	case "v3":
		fr.path = filepath.Join(root, "d", "sw")
		fr.hyd = fr.path + ".hyd"
		s := stor.Open(fr.path, fr.name)
		s.Write(fr.ents(1 + r.IntN(30)))
		_ = s.Chron.Close()
		fr.check("fresh")
	case "v2fmt":
		fr.path = filepath.Join(root, "d", "sw")
		fr.hyd = fr.path + ".hyd"
		if err := fr.buildLegacy(1 + r.IntN(30)); err != nil {
			return err
		}
		fr.check("legacy-built")
	case "migrated":
		data := filepath.Join(root, "data")
		sp := c23.SwampSpec{Name: fr.name, MaxFile: []int64{60, 500, 8192}[r.IntN(3)]}
		n := 1 + r.IntN(25)
		for i := 0; i < n; i++ {
			sp.Ops = append(sp.Ops, c23.Op{Op: "set", Key: fmt.Sprintf("k%04d", i), Kind: "string", Seed: r.Uint64(), Size: 1 + r.IntN(60)})
			if r.IntN(6) == 0 {
				sp.Ops = append(sp.Ops, c23.Op{Op: "flush"})
			}
		}
		fr.keys = n
		sp.Ops = append(sp.Ops, c23.Op{Op: "close"})
		c23.BuildV1(data, &sp)
		fr.path = c23.SwampFolder(data, fr.name)
		fr.hyd = fr.path + ".hyd"
		m, err := migrator.New(migrator.Config{DataPath: data, Verify: r.IntN(2) == 0, DeleteOld: true, Parallel: 1})
		if err != nil {
			return err
		}
		res, err := m.Run()
		if err != nil {
			return err
		}
		if len(res.FailedSwamps) > 0 {
			if len(fr.name) > MaxNameLen {
				fr.refused = true // the migrator refused a name the V3 header cannot describe
				return nil
			}
			return fmt.Errorf("migrator failed: %s: %s", res.FailedSwamps[0].Phase, res.FailedSwamps[0].Error)
		}
		fr.check("migrated")
	}
	return nil
}

func (fr *fileRun) stage(st string) {
	if fr.refused {
		return
	}
	before := inode(fr.hyd)
	switch st {
	case "append":
		s := stor.Open(fr.path, fr.name)
		s.Write(fr.ents(1 + int(fr.fc.Seed%17)))
		_ = s.Chron.Close()
	case "append-sync":
		s := stor.Open(fr.path, fr.name)
		s.Write(fr.ents(1 + int(fr.fc.Seed%23)))
		_ = s.Chron.Sync()
		fr.check("append-sync:writer-open")
		s.Write(fr.ents(3))
		_ = s.Chron.Close()
	case "inline":
		s := stor.Open(fr.path, fr.name)
		n := 110 + int(fr.fc.Seed%30)
		if fr.keys > n {
			n = fr.keys
		}
		for i := 0; i < 4; i++ {
			s.Write(fr.ents(n))
		}
		fr.observed("write-inline", before)
		fr.check("inline:writer-open")
		_ = s.Chron.Close()
	case "close":
		s := stor.Open(fr.path, fr.name)
		s.Chron.RegisterLiveCountFunction(func() int { return 1 << 40 })
		n := 110 + int(fr.fc.Seed%30)
		if fr.keys > n {
			n = fr.keys
		}
		s.Write(fr.ents(n))
		s.Write(fr.ents(n))
		s.Write(fr.ents(n))
		mid := inode(fr.hyd)
		s.Chron.RegisterLiveCountFunction(func() int { return n })
		_ = s.Chron.Close()
		fr.observed("close", mid)
	case "loadheal":
		fr.fragment()
		fr.check("loadheal:fragmented")
		mid := inode(fr.hyd)
		s := stor.Open(fr.path, fr.name)
		fr.observed("load-selfheal", mid)
		_ = s.Chron.Close()
	case "force":
		s := stor.Open(fr.path, fr.name)
		s.Write(fr.ents(2 + int(fr.fc.Seed%9)))
		_ = s.Chron.ForceCompaction()
		fr.observed("force-compaction", before)
		fr.check("force:writer-reopens")
		s.Write(fr.ents(2))
		_ = s.Chron.Close()
	case "compactor":
		fr.fragment()
		mid := inode(fr.hyd)
		_, _ = v2.NewCompactor(fr.hyd, v2.DefaultMaxBlockSize, 0.3).Compact()
		fr.observed("compactor.Compact", mid)
	case "compactor-force":
		_, _ = v2.NewCompactor(fr.hyd, v2.DefaultMaxBlockSize, 0.3).ForceCompact()
		fr.observed("compactor.ForceCompact", before)
	case "compactor-ifneeded":
		fr.fragment()
		mid := inode(fr.hyd)
		_, _ = v2.NewCompactor(fr.hyd, v2.DefaultMaxBlockSize, 0.3).CompactIfNeeded()
		fr.observed("compactor.CompactIfNeeded", mid)
	case "cli-compact":
		fr.fragment()
		mid := inode(fr.hyd)
		_ = hcmd.VerifCompactSwamp(fr.hyd, 0.2)
		fr.observed("hydraidectl-compact", mid)
	case "delete-all-force":
		s := stor.Open(fr.path, fr.name)
		var dels []stor.Ent
		for k := range s.State() {
			dels = append(dels, stor.Ent{Key: k, Del: true})
		}
		s.Write(dels)
		_ = s.Chron.Close()
		fr.check("delete-all:closed")
		mid := inode(fr.hyd)
		_, _ = v2.NewCompactor(fr.hyd, v2.DefaultMaxBlockSize, 0.3).ForceCompact()
		fr.observed("compactor.ForceCompact(empty)", mid)
		fr.keys = 0
	case "fmtmigrate", "fmtmigrate-stale-empty", "fmtmigrate-stale-cut", "fmtmigrate-stale-full":
		tmp := fr.hyd + ".fmtmigrate"
		plant := st
		if len(fr.name) > MaxNameLen {
			// a current-format temp file for a name the header cannot describe could only come
			// from the defect under test; the tool's own behaviour is exercised without one
			plant = "fmtmigrate"
		}
		switch plant {
		case "fmtmigrate-stale-empty":
			_ = os.WriteFile(tmp, nil, 0o644)
		case "fmtmigrate-stale-cut":
			// an earlier run of the tool died while writing the temp file's header / name
			h := v2.NewFileHeader()
			h.NameLength = uint16(len(fr.name))
			b := append(h.Serialize(), []byte(fr.name)...)
			_ = os.WriteFile(tmp, b[:len(b)*int(1+fr.fc.Seed%9)/10], 0o644)
		case "fmtmigrate-stale-full":
			// an earlier run died just before its rename: a complete temp file of the older state
			if w, err := v2.NewFileWriterWithName(tmp, v2.DefaultMaxBlockSize, fr.name); err == nil {
				_ = w.WriteEntry(v2.Entry{Operation: v2.OpInsert, Key: "k0000", Data: encodeTreasure("k0000", "stale")})
				_ = w.Close()
			}
		}
		_, _, _, _ = hcmd.VerifMigrateFileV2Format(fr.hyd)
		fr.observed("hydraidectl-migrate-format", before)
	}
	fr.check(st)
}

// runFile executes one file case and returns its violations.
func runFile(c *rig.Check, fc *FileCase) (viol []violation, nontrivial bool, err error) {
	root := rig.TempRoot("c29f")
	defer rig.RemoveAll(root)
	fr := &fileRun{c: c, fc: fc, name: fc.Name.Build()}
	if err := fr.create(root); err != nil {
		return nil, false, err
	}
	for _, st := range fc.Then {
		fr.stage(st)
	}
	if fr.refused {
		c.Count("names_beyond_limit_refused_by_the_engine", 1)
	}
	c.Count("name_readbacks", int64(fr.checks))
	return fr.viol, fr.checks > 0, nil
}
