// Package rig builds the hydraide engine in-process exactly the way
// app/server/server.Start does, minus TLS and the TCP listener, and gives the
// monitors a sentinel on the process-wide slog stream.
package rig

import (
	"context"
	"fmt"
	"log/slog"
	"os"
	"path/filepath"
	"strings"
	"sync"
	"sync/atomic"
	"time"

	"github.com/hydraide/hydraide/app/core/filesystem"
	"github.com/hydraide/hydraide/app/core/settings"
	"github.com/hydraide/hydraide/app/core/zeus"
	"github.com/hydraide/hydraide/app/name"
	"github.com/hydraide/hydraide/app/server/gateway"
	"github.com/hydraide/hydraide/app/server/observer"
	hydrapb "github.com/hydraide/hydraide/sdk/go/hydraidego/v3/hydraidepbgo"
)

// Options configure one engine instance.
type Options struct {
	Root            string // HYDRAIDE_ROOT_PATH; must be set (one rig per process at a time)
	V1              bool   // legacy engine instead of V2
	Depth           int    // hash folder depth (server uses 1)
	PerLevel        int    // folders per level (server uses 1000)
	CloseAfterIdle  int64  // gateway default, seconds
	WriteInterval   int64  // gateway default, seconds
	FileSize        int64
	WithObserver    bool
	WithShutdownCtx bool
}

// Rig is a running engine.
type Rig struct {
	Opt      Options
	Settings settings.Settings
	Zeus     zeus.Zeus
	GW       gateway.Gateway
	cancel   context.CancelFunc
	obsStop  context.CancelFunc
	stopped  atomic.Bool
}

// New starts an engine on opt.Root.
func New(opt Options) *Rig {
	if opt.Root == "" {
		panic("rig: Root required")
	}
	if opt.Depth == 0 {
		opt.Depth = 1
	}
	if opt.PerLevel == 0 {
		opt.PerLevel = 1000
	}
	if opt.CloseAfterIdle == 0 {
		opt.CloseAfterIdle = 5
	}
	if opt.WriteInterval == 0 {
		opt.WriteInterval = 1
	}
	if opt.FileSize == 0 {
		opt.FileSize = 8192
	}
	_ = os.Setenv("HYDRAIDE_ROOT_PATH", opt.Root)
	st := settings.New(opt.Depth, opt.PerLevel)
	if !opt.V1 {
		if err := st.SetEngine(settings.EngineV2); err != nil {
			panic(err)
		}
	} else {
		_ = st.SetEngine(settings.EngineV1)
	}
	z := zeus.New(st, filesystem.New())
	z.StartHydra()
	r := &Rig{Opt: opt, Settings: st, Zeus: z}
	gw := gateway.Gateway{
		SettingsInterface:     st,
		ZeusInterface:         z,
		DefaultCloseAfterIdle: opt.CloseAfterIdle,
		DefaultWriteInterval:  opt.WriteInterval,
		DefaultFileSize:       opt.FileSize,
	}
	if opt.WithObserver {
		ctx, c := context.WithCancel(context.Background())
		r.obsStop = c
		gw.ObserverInterface = observer.New(ctx, false)
	}
	if opt.WithShutdownCtx {
		ctx, c := context.WithCancel(context.Background())
		r.cancel = c
		gw.ShutdownCtx = ctx
	}
	r.GW = gw
	return r
}

// Stop shuts the engine down the way zeus does on a panic signal: the
// panic-monitor goroutine receives the signal, runs StopHydra and exits. It
// returns when StopHydra has returned. In a synctest bubble the caller must
// afterwards sleep (virtual) so that remaining tickers drain.
func (r *Rig) Stop() {
	if r.stopped.Swap(true) {
		return
	}
	if r.cancel != nil {
		r.cancel()
	}
	if r.obsStop != nil {
		r.obsStop()
	}
	// TriggerPanic blocks until the monitor goroutine has taken the signal;
	// the monitor then calls StopHydra itself. We wait for the swamps to be gone.
	r.Zeus.GetSafeops().TriggerPanic()
	for i := 0; i < 100000; i++ {
		if r.Zeus.GetHydra().CountActiveSwamps() == 0 {
			break
		}
		time.Sleep(100 * time.Millisecond)
	}
}

// Active returns the number of swamps hydra holds in memory.
func (r *Rig) Active() int { return r.Zeus.GetHydra().CountActiveSwamps() }

// Island computes the island id the way the SDK does (1000 islands).
func Island(swamp string) uint64 {
	return uint64(name.Load(swamp).GetFolderNumber(1000))
}

// HydPath returns the V2 storage file of a swamp (may not exist).
func (r *Rig) HydPath(swamp string) string {
	n := name.Load(swamp)
	p := n.GetFullHashPath(r.Settings.GetHydraAbsDataFolderPath(), Island(swamp), r.Opt.Depth, r.Opt.PerLevel)
	return p + ".hyd"
}

// Register registers a swamp pattern through the gateway.
func (r *Rig) Register(pattern string, inMem bool, idleSec, writeSec int64) {
	req := &hydrapb.RegisterSwampRequest{SwampPattern: pattern, IsInMemorySwamp: inMem, CloseAfterIdle: idleSec}
	if !inMem {
		w := writeSec
		req.WriteInterval = &w
		fs := int64(8192)
		req.MaxFileSize = &fs
	}
	if _, err := r.GW.RegisterSwamp(context.Background(), req); err != nil {
		panic(fmt.Sprintf("register %s: %v", pattern, err))
	}
	if writeSec == 0 && !inMem {
		// The gateway replaces a zero write interval with its default; the
		// settings API itself accepts 0 (immediate write mode).
		r.Settings.RegisterPattern(name.Load(pattern), false, idleSec, &settings.FileSystemSettings{WriteIntervalSec: 0, MaxFileSizeByte: 8192})
	}
}

// ---------------------------------------------------------------------------
// Sentinel: a slog.Handler that classifies and keeps alarming records.

type SentinelRecord struct {
	Class string
	Msg   string
	Attrs string
}

type Sentinel struct {
	mu      sync.Mutex
	recs    []SentinelRecord
	all     atomic.Int64
	Verbose bool
}

var theSentinel = &Sentinel{}

// InstallSentinel installs the process-wide handler (idempotent) and returns it.
func InstallSentinel() *Sentinel {
	slog.SetDefault(slog.New(theSentinel))
	return theSentinel
}

func (s *Sentinel) Enabled(_ context.Context, l slog.Level) bool { return l >= slog.LevelWarn || s.Verbose }
func (s *Sentinel) WithAttrs(_ []slog.Attr) slog.Handler         { return s }
func (s *Sentinel) WithGroup(_ string) slog.Handler              { return s }

// classify returns "" for records that are not alarming.
func classify(msg string) string {
	m := strings.ToLower(msg)
	switch {
	case strings.Contains(m, "grpc gateway panic"), strings.Contains(m, "caught panic"), strings.Contains(m, "panic caught"):
		return "panic"
	case strings.Contains(m, "cannot load index"), strings.Contains(m, "failed to load index"), strings.Contains(m, "can not load"):
		return "load"
	case strings.Contains(m, "decode"), strings.Contains(m, "deserializ"), strings.Contains(m, "unmarshal"):
		return "decode"
	}
	return ""
}

func (s *Sentinel) Handle(_ context.Context, r slog.Record) error {
	s.all.Add(1)
	if s.Verbose {
		fmt.Fprintf(os.Stderr, "[slog %s] %s\n", r.Level, r.Message)
	}
	cl := classify(r.Message)
	if cl == "" && r.Level >= slog.LevelError {
		cl = "error"
	}
	if cl == "" {
		return nil
	}
	var sb strings.Builder
	r.Attrs(func(a slog.Attr) bool {
		v := a.Value.String()
		if len(v) > 1500 {
			v = v[:1500] + "…"
		}
		fmt.Fprintf(&sb, "%s=%s ", a.Key, v)
		return true
	})
	s.mu.Lock()
	if len(s.recs) < 10000 {
		s.recs = append(s.recs, SentinelRecord{Class: cl, Msg: r.Message, Attrs: sb.String()})
	}
	s.mu.Unlock()
	return nil
}

// Drain returns and clears the records of the given classes (all if none given).
func (s *Sentinel) Drain(classes ...string) []SentinelRecord {
	s.mu.Lock()
	defer s.mu.Unlock()
	var out, keep []SentinelRecord
	for _, r := range s.recs {
		match := len(classes) == 0
		for _, c := range classes {
			if r.Class == c {
				match = true
			}
		}
		if match {
			out = append(out, r)
		} else {
			keep = append(keep, r)
		}
	}
	s.recs = keep
	return out
}

// Count returns the number of kept records of a class.
func (s *Sentinel) Count(class string) int {
	s.mu.Lock()
	defer s.mu.Unlock()
	n := 0
	for _, r := range s.recs {
		if r.Class == class {
			n++
		}
	}
	return n
}

// TempRoot creates a fresh scratch root (under $TMPDIR) for one rig.
func TempRoot(tag string) string {
	d, err := os.MkdirTemp(ScratchBase(), "verif-"+tag+"-")
	if err != nil {
		panic(err)
	}
	return d
}

// RemoveAll removes a scratch root.
func RemoveAll(p string) {
	if p == "" || p == "/" || !strings.Contains(filepath.Base(p), "verif-") {
		return
	}
	_ = os.RemoveAll(p)
}

// ScratchBase is the directory scratch roots are created in: $VERIF_SCRATCH if
// set, else a per-process-tree directory on /dev/shm (fsync there costs
// microseconds instead of milliseconds), else the default temp dir.
func ScratchBase() string {
	if d := os.Getenv("VERIF_SCRATCH"); d != "" {
		if os.MkdirAll(d, 0o755) == nil {
			return d
		}
	}
	if fi, err := os.Stat("/dev/shm"); err == nil && fi.IsDir() {
		d := "/dev/shm/verif-scratch"
		if os.MkdirAll(d, 0o755) == nil {
			return d
		}
	}
	return ""
}
