package rig

import (
	"bufio"
	"bytes"
	"encoding/json"
	"flag"
	"fmt"
	"hash/fnv"
	"math/rand/v2"
	"os"
	"os/exec"
	"path/filepath"
	"regexp"
	"sort"
	"strconv"
	"strings"
	"sync"
	"syscall"
	"testing"
	"time"
)

// VerifDir is where MANIFEST.json, evidence/, replays/ and KNOWN_FINDINGS.jsonl live.
func VerifDir() string {
	if d := os.Getenv("VERIF_DIR"); d != "" {
		return d
	}
	return "/verif"
}

var (
	flagTier   = flag.String("tier", "", "quick|thorough (default $VERIF_TIER or quick)")
	flagReplay = flag.String("replay", "", "replay file")
)

// Violation is one observed refutation of the property.
type Violation struct {
	Sig     string `json:"sig"`  // specific signature, matched against KNOWN_FINDINGS
	What    string `json:"what"` // one line for humans
	Witness any    `json:"witness,omitempty"`
	Replay  string `json:"replay,omitempty"`
}

type knownEntry struct {
	Property string `json:"property"`
	ID       string `json:"id"`
	Status   string `json:"status"` // known | fixed
	Match    string `json:"match"`  // regexp on the violation signature (anchored)
	What     string `json:"what"`
	Commit   string `json:"commit,omitempty"`
	re       *regexp.Regexp
}

// Partial is the mergeable state of a check (what a child hands to its parent).
type Partial struct {
	Evals        int               `json:"evals"`
	Distinct     []uint64          `json:"distinct"`
	Samples      []json.RawMessage `json:"samples"`
	Violations   []Violation       `json:"violations"`
	Known        map[string]int    `json:"known"`
	KnownSample  map[string]string `json:"known_sample"`
	Inconclusive []string          `json:"inconclusive"`
	Counters     map[string]int64  `json:"counters"`
	Sets         map[string][]string `json:"sets"`
}

// Check accumulates what one run of one property's monitor observed.
type Check struct {
	T     *testing.T
	ID    string
	Level string
	Tier  string
	Seed  int64

	Rule        string
	Assumptions []string
	MaxSamples  int
	// MaxInconclusiveFrac is the tolerated fraction of inconclusive cases.
	MaxInconclusiveFrac float64
	// MinNontrivial is the least number of distinct non-trivial cases a run must see.
	MinNontrivial int

	start    time.Time
	mu       sync.Mutex
	p        Partial
	distinct map[uint64]struct{}
	sets     map[string]map[string]struct{}
	extra    map[string]any
	known    []knownEntry
	child    string
	finished bool
}

// NewCheck creates the accumulator. Tier and seed come from flags / environment.
func NewCheck(t *testing.T, id, level string) *Check {
	tier := *flagTier
	if tier == "" {
		tier = os.Getenv("VERIF_TIER")
	}
	if tier != "thorough" {
		tier = "quick"
	}
	seed := int64(1)
	if s := os.Getenv("VERIF_SEED"); s != "" {
		if v, err := strconv.ParseInt(s, 10, 64); err == nil {
			seed = v
		}
	}
	c := &Check{T: t, ID: id, Level: level, Tier: tier, Seed: seed, MaxSamples: 6,
		MaxInconclusiveFrac: 0.05, MinNontrivial: 2,
		start: time.Now(), distinct: map[uint64]struct{}{}, sets: map[string]map[string]struct{}{},
		extra: map[string]any{}, child: os.Getenv("VERIF_CHILD_OUT")}
	c.p.Known = map[string]int{}
	c.p.KnownSample = map[string]string{}
	c.p.Counters = map[string]int64{}
	c.loadKnown()
	InstallSentinel()
	return c
}

func (c *Check) loadKnown() {
	f, err := os.Open(filepath.Join(VerifDir(), "KNOWN_FINDINGS.txt"))
	if err != nil {
		return
	}
	defer f.Close()
	sc := bufio.NewScanner(f)
	sc.Buffer(make([]byte, 1<<20), 1<<20)
	for sc.Scan() {
		line := strings.TrimSpace(sc.Text())
		if !strings.HasPrefix(line, "known:") {
			continue // comments and "fixed:" lines suppress nothing
		}
		var e knownEntry
		rest := strings.TrimSpace(strings.TrimPrefix(line, "known:"))
		if i := strings.Index(rest, " what="); i >= 0 {
			e.What = rest[i+6:]
			rest = rest[:i]
		}
		for _, f := range strings.Fields(rest) {
			switch {
			case strings.HasPrefix(f, "property="):
				e.Property = f[9:]
			case strings.HasPrefix(f, "id="):
				e.ID = f[3:]
			case strings.HasPrefix(f, "match="):
				e.Match = f[6:]
			}
		}
		if e.Property != c.ID || e.Match == "" || e.ID == "" {
			continue
		}
		re, err := regexp.Compile("^(?:" + e.Match + ")$")
		if err != nil {
			fmt.Printf("KNOWN_FINDINGS.txt: bad regexp in %s: %v\n", e.ID, err)
			continue
		}
		e.re = re
		c.known = append(c.known, e)
	}
}

func (c *Check) Quick() bool   { return c.Tier == "quick" }
func (c *Check) IsChild() bool { return c.child != "" }
func (c *Check) ReplayPath() string { return *flagReplay }

// N picks the tier's bound.
func (c *Check) N(quick, thorough int) int {
	if c.Quick() {
		return quick
	}
	return thorough
}

func hash64(s string) uint64 {
	h := fnv.New64a()
	_, _ = h.Write([]byte(s))
	return h.Sum64()
}

// Rand returns the deterministic PRNG stream of one case.
func (c *Check) Rand(caseIdx int) *rand.Rand {
	return rand.New(rand.NewPCG(uint64(c.Seed)*0x9E3779B97F4A7C15+hash64(c.ID), uint64(caseIdx)+1))
}

// RandFor returns a PRNG stream for (seed, id, arbitrary label).
func (c *Check) RandFor(label string) *rand.Rand {
	return rand.New(rand.NewPCG(uint64(c.Seed)*0x9E3779B97F4A7C15+hash64(c.ID), hash64(label)))
}

// Case counts one executed case. key identifies the case content (distinctness);
// nontrivial says whether it satisfies the property's non-triviality rule.
func (c *Check) Case(key string, nontrivial bool) {
	c.mu.Lock()
	defer c.mu.Unlock()
	c.p.Evals++
	if nontrivial {
		c.distinct[hash64(key)] = struct{}{}
	}
}

// Sample keeps one of the first MaxSamples cases verbatim.
func (c *Check) Sample(v any) {
	c.mu.Lock()
	defer c.mu.Unlock()
	if len(c.p.Samples) >= c.MaxSamples {
		return
	}
	b, err := json.Marshal(v)
	if err != nil {
		b, _ = json.Marshal(fmt.Sprintf("%v", v))
	}
	if len(b) > 4000 {
		b, _ = json.Marshal(string(b[:4000]) + "…(truncated)")
	}
	c.p.Samples = append(c.p.Samples, b)
}

// Count adds to a named counter that ends up in coverage.
func (c *Check) Count(name string, n int64) {
	c.mu.Lock()
	c.p.Counters[name] += n
	c.mu.Unlock()
}

// Seen records membership of v in a named set; the set size ends up in coverage.
func (c *Check) Seen(set, v string) {
	c.mu.Lock()
	m := c.sets[set]
	if m == nil {
		m = map[string]struct{}{}
		c.sets[set] = m
	}
	if len(m) < 5000 {
		m[v] = struct{}{}
	}
	c.mu.Unlock()
}

// Extra sets a free-form coverage key.
func (c *Check) Extra(k string, v any) {
	c.mu.Lock()
	c.extra[k] = v
	c.mu.Unlock()
}

// Inconclusive records a case that could be neither confirmed nor refuted.
func (c *Check) Inconclusive(reason string) {
	c.mu.Lock()
	c.p.Inconclusive = append(c.p.Inconclusive, reason)
	c.mu.Unlock()
}

// Violate records a refutation. sig must be a specific signature of *what*
// failed (call site / input class / clause), not just the property id.
func (c *Check) Violate(sig, what string, witness any) {
	c.mu.Lock()
	defer c.mu.Unlock()
	for _, k := range c.known {
		if k.re.MatchString(sig) {
			c.p.Known[k.ID]++
			if _, ok := c.p.KnownSample[k.ID]; !ok {
				c.p.KnownSample[k.ID] = what
			}
			return
		}
	}
	// keep at most 3 witnesses per signature, 60 overall
	n := 0
	for _, v := range c.p.Violations {
		if v.Sig == sig {
			n++
		}
	}
	if n >= 3 || len(c.p.Violations) >= 60 {
		c.p.Counters["violations_dropped"]++
		return
	}
	c.p.Violations = append(c.p.Violations, Violation{Sig: sig, What: what, Witness: witness})
}

// Violations returns the number of unlisted violations so far.
func (c *Check) Violations() int {
	c.mu.Lock()
	defer c.mu.Unlock()
	return len(c.p.Violations)
}

func (c *Check) merge(p *Partial) {
	c.mu.Lock()
	defer c.mu.Unlock()
	c.p.Evals += p.Evals
	for _, d := range p.Distinct {
		c.distinct[d] = struct{}{}
	}
	for _, s := range p.Samples {
		if len(c.p.Samples) < c.MaxSamples {
			c.p.Samples = append(c.p.Samples, s)
		}
	}
	for _, v := range p.Violations {
		n := 0
		for _, w := range c.p.Violations {
			if w.Sig == v.Sig {
				n++
			}
		}
		if n < 3 && len(c.p.Violations) < 60 {
			c.p.Violations = append(c.p.Violations, v)
		}
	}
	for k, n := range p.Known {
		c.p.Known[k] += n
	}
	for k, s := range p.KnownSample {
		if _, ok := c.p.KnownSample[k]; !ok {
			c.p.KnownSample[k] = s
		}
	}
	c.p.Inconclusive = append(c.p.Inconclusive, p.Inconclusive...)
	for k, n := range p.Counters {
		c.p.Counters[k] += n
	}
	for set, vs := range p.Sets {
		m := c.sets[set]
		if m == nil {
			m = map[string]struct{}{}
			c.sets[set] = m
		}
		for _, v := range vs {
			m[v] = struct{}{}
		}
	}
}

// Finish writes the evidence file (parent) or the partial (child), prints the
// verdict lines and fails the test when the run did not hold.
func (c *Check) Finish() {
	if c.finished {
		return
	}
	c.finished = true
	if c.IsChild() {
		c.mu.Lock()
		for d := range c.distinct {
			c.p.Distinct = append(c.p.Distinct, d)
		}
		c.p.Sets = map[string][]string{}
		for k, m := range c.sets {
			for v := range m {
				c.p.Sets[k] = append(c.p.Sets[k], v)
			}
		}
		b, _ := json.Marshal(&c.p)
		c.mu.Unlock()
		if err := os.WriteFile(c.child, b, 0o644); err != nil {
			c.T.Fatalf("child: cannot write partial: %v", err)
		}
		return
	}
	c.mu.Lock()
	defer c.mu.Unlock()

	// witnesses
	rdir := filepath.Join(VerifDir(), "replays", c.ID)
	for i := range c.p.Violations {
		v := &c.p.Violations[i]
		_ = os.MkdirAll(rdir, 0o755)
		p := filepath.Join(rdir, fmt.Sprintf("%s-seed%d-%03d-%x.json", c.Tier, c.Seed, i, hash64(v.Sig)&0xffffff))
		b, _ := json.MarshalIndent(map[string]any{"property": c.ID, "seed": c.Seed, "tier": c.Tier, "sig": v.Sig, "what": v.What, "witness": v.Witness}, "", " ")
		_ = os.WriteFile(p, b, 0o644)
		v.Replay = p
	}

	nontrivial := len(c.distinct)
	incFrac := 0.0
	if c.p.Evals > 0 {
		incFrac = float64(len(c.p.Inconclusive)) / float64(c.p.Evals)
	}
	cov := map[string]any{
		"evaluations":         c.p.Evals,
		"distinct_nontrivial": nontrivial,
		"rule":                c.Rule,
		"samples":             c.p.Samples,
		"inconclusive":        len(c.p.Inconclusive),
		"conclusive":          c.p.Evals - len(c.p.Inconclusive),
	}
	if len(c.p.Samples) == 0 {
		cov["samples"] = []any{}
	}
	if len(c.p.Inconclusive) > 0 {
		rs := map[string]int{}
		for _, r := range c.p.Inconclusive {
			if len(r) > 120 {
				r = r[:120]
			}
			rs[r]++
		}
		cov["inconclusive_reasons"] = rs
	}
	for k, v := range c.p.Counters {
		if _, clash := cov[k]; clash {
			k = "count_" + k // never let a counter overwrite a schema key such as "samples"
		}
		cov[k] = v
	}
	for k, m := range c.sets {
		cov["distinct_"+k] = len(m)
		if len(m) <= 40 {
			var l []string
			for v := range m {
				l = append(l, v)
			}
			sort.Strings(l)
			cov[k] = l
		}
	}
	for k, v := range c.extra {
		cov[k] = v
	}
	if len(c.p.Known) > 0 {
		cov["known_findings_observed"] = c.p.Known
	}
	if len(c.p.Violations) > 0 {
		var sigs []string
		for _, v := range c.p.Violations {
			sigs = append(sigs, v.Sig)
		}
		cov["violation_signatures"] = sigs
	}
	ev := map[string]any{
		"property_id": c.ID,
		"tier":        c.Tier,
		"seed":        c.Seed,
		"level":       c.Level,
		"coverage":    cov,
		"assumptions": c.Assumptions,
		"wall_s":      time.Since(c.start).Seconds(),
		"violations":  len(c.p.Violations),
	}
	if c.Assumptions == nil {
		ev["assumptions"] = []string{}
	}
	if *flagReplay == "" {
		_ = os.MkdirAll(filepath.Join(VerifDir(), "evidence"), 0o755)
		b, _ := json.MarshalIndent(ev, "", " ")
		if err := os.WriteFile(filepath.Join(VerifDir(), "evidence", c.ID+".json"), b, 0o644); err != nil {
			c.T.Errorf("cannot write evidence: %v", err)
		}
	}

	fmt.Printf("SUMMARY property=%s tier=%s seed=%d evaluations=%d distinct_nontrivial=%d inconclusive=%d violations=%d known=%d wall=%.1fs\n",
		c.ID, c.Tier, c.Seed, c.p.Evals, nontrivial, len(c.p.Inconclusive), len(c.p.Violations), len(c.p.Known), time.Since(c.start).Seconds())
	var kids []string
	for id := range c.p.Known {
		kids = append(kids, id)
	}
	sort.Strings(kids)
	for _, id := range kids {
		what := ""
		for _, k := range c.known {
			if k.ID == id {
				what = k.What
			}
		}
		fmt.Printf("KNOWN-FINDING: property=%s %s: %s (observed %d times, e.g. %s)\n", c.ID, id, what, c.p.Known[id], c.p.KnownSample[id])
	}
	seen := map[string]bool{}
	for _, v := range c.p.Violations {
		if seen[v.Sig] {
			continue
		}
		seen[v.Sig] = true
		fmt.Printf("VIOLATION property=%s replay=%s\n  sig=%s\n  %s\n", c.ID, v.Replay, v.Sig, v.What)
	}
	switch {
	case len(c.p.Violations) > 0:
		c.T.Fail()
	case *flagReplay != "":
	case c.p.Evals == 0 || nontrivial < c.MinNontrivial:
		fmt.Printf("INCONCLUSIVE property=%s: observed too little (evaluations=%d distinct_nontrivial=%d, need %d)\n", c.ID, c.p.Evals, nontrivial, c.MinNontrivial)
		c.T.Fail()
	case incFrac > c.MaxInconclusiveFrac:
		fmt.Printf("INCONCLUSIVE property=%s: %d of %d cases inconclusive (bound %.0f%%): %v\n", c.ID, len(c.p.Inconclusive), c.p.Evals, 100*c.MaxInconclusiveFrac, cov["inconclusive_reasons"])
		c.T.Fail()
	}
}

// ---------------------------------------------------------------------------
// Child processes

// ChildResult is what the parent learns about one child.
type ChildResult struct {
	Index     int
	Spec      any
	ExitErr   error
	TimedOut  bool
	NoPartial bool
	LogPath   string // combined stdout+stderr of the child
	Fatal     []string // "fatal error:" / "panic:" lines found in the log
	Races     []RaceReport
	RaceDir   string
}

// FanoutOpts control child execution.
type FanoutOpts struct {
	Par      int
	Timeout  time.Duration
	Env      []string
	KeepLogs bool
	RunName  string // test function to run in the child (default: the caller's test name)
}

// ChildSpec decodes the spec handed to this child.
func (c *Check) ChildSpec(v any) {
	b, err := os.ReadFile(os.Getenv("VERIF_CHILD_SPEC"))
	if err != nil {
		c.T.Fatalf("child spec: %v", err)
	}
	if err := json.Unmarshal(b, v); err != nil {
		c.T.Fatalf("child spec: %v", err)
	}
}

// Fanout runs one child process (this same test binary, same test) per spec,
// merges their partials into c and returns per-child process-level observations.
// Children run with GORACE logging to a private directory and a watchdog that
// sends SIGQUIT (goroutine dump lands in the log) and marks the child timed out.
func (c *Check) Fanout(specs []any, o FanoutOpts) []ChildResult {
	if o.Par <= 0 {
		o.Par = 16
	}
	if o.Timeout == 0 {
		o.Timeout = 10 * time.Minute
	}
	if o.RunName == "" {
		o.RunName = c.T.Name()
	}
	work, err := os.MkdirTemp(ScratchBase(), "verif-fan-"+c.ID+"-")
	if err != nil {
		c.T.Fatal(err)
	}
	res := make([]ChildResult, len(specs))
	sem := make(chan struct{}, o.Par)
	var wg sync.WaitGroup
	for i := range specs {
		wg.Add(1)
		sem <- struct{}{}
		go func(i int) {
			defer wg.Done()
			defer func() { <-sem }()
			res[i] = c.runChild(work, i, specs[i], o)
		}(i)
	}
	wg.Wait()
	keep := o.KeepLogs
	for _, r := range res {
		if r.ExitErr != nil || r.TimedOut || len(r.Fatal) > 0 || len(r.Races) > 0 {
			keep = true
		}
	}
	if !keep {
		_ = os.RemoveAll(work)
	} else {
		// move logs of interesting children under replays/, drop the rest
		dst := filepath.Join(VerifDir(), "replays", c.ID, "logs")
		_ = os.MkdirAll(dst, 0o755)
		for i := range res {
			r := &res[i]
			if r.ExitErr != nil || r.TimedOut || len(r.Fatal) > 0 || len(r.Races) > 0 {
				b, err := os.ReadFile(r.LogPath)
				if err == nil {
					if len(b) > 2<<20 {
						b = append(b[:1<<20], b[len(b)-(1<<20):]...)
					}
					np := filepath.Join(dst, fmt.Sprintf("%s-seed%d-child%03d.log", c.Tier, c.Seed, r.Index))
					if os.WriteFile(np, b, 0o644) == nil {
						r.LogPath = np
					}
				}
			}
		}
		_ = os.RemoveAll(work)
	}
	return res
}

func (c *Check) runChild(work string, i int, spec any, o FanoutOpts) ChildResult {
	r := ChildResult{Index: i, Spec: spec}
	dir := filepath.Join(work, fmt.Sprintf("c%04d", i))
	_ = os.MkdirAll(dir, 0o755)
	specPath := filepath.Join(dir, "spec.json")
	outPath := filepath.Join(dir, "partial.json")
	r.LogPath = filepath.Join(dir, "log.txt")
	r.RaceDir = dir
	b, _ := json.Marshal(spec)
	_ = os.WriteFile(specPath, b, 0o644)
	logf, err := os.Create(r.LogPath)
	if err != nil {
		r.ExitErr = err
		return r
	}
	cmd := exec.Command(os.Args[0], "-test.run=^"+o.RunName+"$", "-test.timeout=0", "-tier="+c.Tier)
	cmd.Stdout = logf
	cmd.Stderr = logf
	cmd.Env = append(os.Environ(),
		"VERIF_CHILD_OUT="+outPath, "VERIF_CHILD_SPEC="+specPath,
		"VERIF_SEED="+strconv.FormatInt(c.Seed, 10), "VERIF_TIER="+c.Tier,
		"TMPDIR="+dir, "VERIF_SCRATCH="+dir,
		"GORACE=halt_on_error=0 history_size=5 log_path="+filepath.Join(dir, "race"),
		"GOTRACEBACK=all")
	cmd.Env = append(cmd.Env, o.Env...)
	cmd.SysProcAttr = &syscall.SysProcAttr{Setpgid: true}
	if err := cmd.Start(); err != nil {
		r.ExitErr = err
		logf.Close()
		return r
	}
	done := make(chan error, 1)
	go func() { done <- cmd.Wait() }()
	select {
	case err := <-done:
		r.ExitErr = err
	case <-time.After(o.Timeout):
		r.TimedOut = true
		_ = cmd.Process.Signal(syscall.SIGQUIT)
		select {
		case <-done:
		case <-time.After(20 * time.Second):
			_ = syscall.Kill(-cmd.Process.Pid, syscall.SIGKILL)
			<-done
		}
	}
	logf.Close()
	if pb, err := os.ReadFile(outPath); err == nil {
		var p Partial
		if json.Unmarshal(pb, &p) == nil {
			c.merge(&p)
		} else {
			r.NoPartial = true
		}
	} else {
		r.NoPartial = true
	}
	r.Fatal = scanFatal(r.LogPath)
	r.Races = ParseRaceLogs(dir)
	// the child's exit status reflects t.Fail() of its own Finish only when it
	// is a parent; children never fail for violations, so a non-zero exit with a
	// partial present means a late crash.
	return r
}

var fatalRe = regexp.MustCompile(`^(fatal error: .*|panic: .*|unexpected fault address.*|runtime: out of memory.*|SIGSEGV.*)$`)

func scanFatal(path string) []string {
	f, err := os.Open(path)
	if err != nil {
		return nil
	}
	defer f.Close()
	var out []string
	sc := bufio.NewScanner(f)
	sc.Buffer(make([]byte, 1<<20), 16<<20)
	for sc.Scan() {
		if m := fatalRe.FindString(sc.Text()); m != "" {
			if strings.Contains(m, "test timed out") {
				continue
			}
			out = append(out, m)
			if len(out) > 20 {
				break
			}
		}
	}
	return out
}

// ---------------------------------------------------------------------------
// Race reports

// RaceReport is one "WARNING: DATA RACE" block reduced to a signature.
type RaceReport struct {
	Sig   string // innermost hydraide frames of the two accesses, function names only
	Entry string // outermost frames pair
	Text  string
}

var frameRe = regexp.MustCompile(`^  ([^\s(]+(?:\([^)]*\))?[^\s(]*)\(`)

// ParseRaceLogs parses every race.* file in dir.
func ParseRaceLogs(dir string) []RaceReport {
	files, _ := filepath.Glob(filepath.Join(dir, "race.*"))
	var out []RaceReport
	for _, f := range files {
		b, err := os.ReadFile(f)
		if err != nil {
			continue
		}
		out = append(out, ParseRaceText(string(b))...)
	}
	return out
}

// ParseRaceText splits race detector output into reports.
func ParseRaceText(s string) []RaceReport {
	var out []RaceReport
	blocks := strings.Split(s, "WARNING: DATA RACE")
	for _, blk := range blocks[1:] {
		if i := strings.Index(blk, "=================="); i >= 0 {
			blk = blk[:i]
		}
		// sections separated by blank lines; first two are the accesses
		secs := strings.Split(strings.TrimSpace(blk), "\n\n")
		var inner, outer []string
		for si, sec := range secs {
			if si >= 2 {
				break
			}
			var frames []string
			for _, ln := range strings.Split(sec, "\n") {
				if m := frameRe.FindStringSubmatch(ln); m != nil {
					frames = append(frames, m[1])
				}
			}
			in, ou := "?", "?"
			for _, fr := range frames {
				if strings.Contains(fr, "hydraide/hydraide") {
					in = shortFunc(fr)
					break
				}
			}
			if len(frames) > 0 && in == "?" {
				in = shortFunc(frames[0])
			}
			for k := len(frames) - 1; k >= 0; k-- {
				if strings.Contains(frames[k], "hydraide/hydraide") {
					ou = shortFunc(frames[k])
					break
				}
			}
			inner = append(inner, in)
			outer = append(outer, ou)
		}
		sort.Strings(inner)
		sort.Strings(outer)
		txt := strings.TrimSpace(blk)
		if len(txt) > 6000 {
			txt = txt[:6000]
		}
		out = append(out, RaceReport{Sig: strings.Join(inner, " <-> "), Entry: strings.Join(outer, " <-> "), Text: txt})
	}
	return out
}

func shortFunc(f string) string {
	f = strings.TrimPrefix(f, "github.com/hydraide/hydraide/")
	// strip closure numbering: func1.2 -> func
	f = regexp.MustCompile(`\.func\d+(\.\d+)*`).ReplaceAllString(f, ".func")
	f = regexp.MustCompile(`\.gowrap\d+`).ReplaceAllString(f, "")
	return f
}

// Dump marshals v for witness purposes, bounded.
func Dump(v any) string {
	var b bytes.Buffer
	enc := json.NewEncoder(&b)
	_ = enc.Encode(v)
	s := b.String()
	if len(s) > 8000 {
		s = s[:8000] + "…"
	}
	return s
}

// NDur picks the tier's duration bound.
func (c *Check) NDur(quick, thorough time.Duration) time.Duration {
	if c.Quick() {
		return quick
	}
	return thorough
}

// StuckIn reads the goroutine dump a watchdog SIGQUIT left in a child's log and
// returns where request goroutines (those with a gateway handler on their
// stack) are parked inside the engine: the innermost hydraide function plus the
// runtime wait primitive, most frequent first, at most three. Empty when no
// request goroutine is parked in engine code (then the child was merely slow).
func StuckIn(logPath string) string {
	b, err := os.ReadFile(logPath)
	if err != nil {
		return ""
	}
	counts := map[string]int{}
	for _, g := range strings.Split(string(b), "\n\ngoroutine ") {
		if !strings.Contains(g, "gateway.Gateway.") {
			continue
		}
		lines := strings.Split(g, "\n")
		if len(lines) < 2 || !(strings.Contains(lines[0], "sync.") || strings.Contains(lines[0], "semacquire") || strings.Contains(lines[0], "chan ") || strings.Contains(lines[0], "select")) {
			continue
		}
		prim := "?"
		inner := ""
		for _, ln := range lines[1:] {
			ln = strings.TrimSpace(ln)
			if strings.HasPrefix(ln, "sync.") && prim == "?" {
				prim = ln[:strings.IndexAny(ln+"(", "(")]
			}
			if strings.HasPrefix(ln, "github.com/hydraide/hydraide/app/") {
				inner = shortFunc(ln[:strings.LastIndex(ln, "(")])
				break
			}
		}
		if inner == "" || strings.Contains(inner, "gateway.Gateway.Subscribe") {
			continue
		}
		counts[inner+"["+prim+"]"]++
	}
	type kv struct {
		k string
		n int
	}
	var l []kv
	for k, n := range counts {
		l = append(l, kv{k, n})
	}
	sort.Slice(l, func(a, b int) bool {
		if l[a].n != l[b].n {
			return l[a].n > l[b].n
		}
		return l[a].k < l[b].k
	})
	var out []string
	for i, e := range l {
		if i < 3 {
			out = append(out, e.k)
		}
	}
	sort.Strings(out)
	return strings.Join(out, "+")
}

var longWaitRe = regexp.MustCompile(`^(\d+) gp=\S+ m=\S+ \[(sync\.(?:RW)?Mutex\.R?Lock|semacquire), (\d+) minutes[^\]]*\]:|^(\d+) \[(sync\.(?:RW)?Mutex\.R?Lock|semacquire), (\d+) minutes[^\]]*\]:`)

// MutexParked reads a goroutine dump and returns the innermost hydraide functions of goroutines that
// the Go runtime itself reports as waiting for a mutex for at least minMinutes minutes. A mutex wait
// is not a durable block for testing/synctest, so a bubble whose engine dead-locks on a mutex never
// reaches quiescence; the watchdog's dump then shows these goroutines.
func MutexParked(logPath string, minMinutes int) []string {
	b, err := os.ReadFile(logPath)
	if err != nil {
		return nil
	}
	seen := map[string]bool{}
	for _, g := range strings.Split(string(b), "\n\ngoroutine ") {
		lines := strings.Split(g, "\n")
		m := longWaitRe.FindStringSubmatch(lines[0])
		if m == nil {
			continue
		}
		mins := m[3]
		if mins == "" {
			mins = m[6]
		}
		n, _ := strconv.Atoi(mins)
		if n < minMinutes {
			continue
		}
		for _, ln := range lines[1:] {
			ln = strings.TrimSpace(ln)
			if strings.HasPrefix(ln, "github.com/hydraide/hydraide/app/") {
				seen[shortFunc(ln[:strings.LastIndex(ln, "(")])] = true
				break
			}
		}
	}
	var out []string
	for k := range seen {
		out = append(out, k)
	}
	sort.Strings(out)
	return out
}

// ReadJSON reads a JSON file into v (panics on error; used for replays).
func ReadJSON(path string, v any) {
	b, err := os.ReadFile(path)
	if err != nil {
		panic(err)
	}
	if err := json.Unmarshal(b, v); err != nil {
		panic(err)
	}
}
