package rig

import (
	"context"
	"testing"
	"testing/synctest"
	"time"

	hydrapb "github.com/hydraide/hydraide/sdk/go/hydraidego/v3/hydraidepbgo"
)

func TestSmokeBubble(t *testing.T) {
	root := TempRoot("smoke")
	defer RemoveAll(root)
	InstallSentinel()
	synctest.Test(t, func(t *testing.T) {
		r := New(Options{Root: root})
		r.Register("a/b/*", false, 2, 1)
		sw := "a/b/c"
		v := "hello"
		resp, err := r.GW.Set(context.Background(), &hydrapb.SetRequest{Swamps: []*hydrapb.SwampRequest{{IslandID: Island(sw), SwampName: sw, CreateIfNotExist: true, Overwrite: true,
			KeyValues: []*hydrapb.KeyValuePair{{Key: "k", StringVal: &v}}}}})
		if err != nil {
			t.Fatal(err)
		}
		t.Log(resp)
		if r.Active() != 1 {
			t.Fatalf("active=%d", r.Active())
		}
		time.Sleep(10 * time.Second)
		if r.Active() != 0 {
			t.Fatalf("after idle active=%d", r.Active())
		}
		g, err := r.GW.Get(context.Background(), &hydrapb.GetRequest{Swamps: []*hydrapb.GetSwamp{{IslandID: Island(sw), SwampName: sw, Keys: []string{"k"}}}})
		if err != nil {
			t.Fatal(err)
		}
		t.Log(g)
		r.Stop()
		time.Sleep(60 * time.Second)
	})
}
