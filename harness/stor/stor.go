// Package stor drives the real V2 chronicler the way a swamp does (real
// treasures, real beacon, Write / Sync / Close / ForceCompaction / Load) from a
// serialisable history, and loads a storage file back into a plain map.
package stor

import (
	"fmt"
	"os"
	"path/filepath"
	"strconv"
	"strings"

	"github.com/hydraide/hydraide/app/core/hydra/swamp/beacon"
	"github.com/hydraide/hydraide/app/core/hydra/swamp/chronicler"
	"github.com/hydraide/hydraide/app/core/hydra/swamp/treasure"
	"github.com/hydraide/hydraide/app/core/hydra/swamp/treasure/guard"
)

// Ent is one record operation.
type Ent struct {
	Key string `json:"k"`
	Val string `json:"v,omitempty"` // content; "big:<seed>:<n>" expands to n deterministic bytes
	Del bool   `json:"d,omitempty"`
}

// Step is one step of a storage history.
type Step struct {
	Op   string `json:"op"` // open | write | sync | close | compact | limit | unlimit | plant
	Ents []Ent  `json:"ents,omitempty"`
	N    int64  `json:"n,omitempty"`    // limit: RLIMIT_FSIZE in bytes
	File string `json:"file,omitempty"` // plant: name suffix; content in Data
	Data []byte `json:"data,omitempty"`
}

// History is a sequence of steps on one swamp file.
type History struct {
	Name  string `json:"name"` // swamp name stored in the file header
	Steps []Step `json:"steps"`
}

// Expand returns the content string of a value spec.
func Expand(v string) string {
	if !strings.HasPrefix(v, "big:") {
		return v
	}
	parts := strings.Split(v, ":")
	if len(parts) != 3 {
		return v
	}
	seed, _ := strconv.ParseUint(parts[1], 10, 64)
	n, _ := strconv.Atoi(parts[2])
	b := make([]byte, n)
	x := seed*6364136223846793005 + 1442695040888963407
	for i := range b {
		x ^= x << 13
		x ^= x >> 7
		x ^= x << 17
		b[i] = "abcdefghijklmnopqrstuvwxyzABCDEFGHIJKLMNOPQRSTUVWXYZ0123456789+/"[x&63]
	}
	return v + "=" + string(b)
}

// Normalize makes every session start explicit: an "open" step is inserted
// before a write / sync / compact step that would otherwise open the swamp
// implicitly (the load, and a possible self-heal compaction, then has its own
// step markers in the trace). It is idempotent.
func (h *History) Normalize() {
	var out []Step
	open := false
	for _, s := range h.Steps {
		switch s.Op {
		case "open":
			open = true
		case "close", "cli":
			open = false
		case "write", "compact":
			if !open {
				out = append(out, Step{Op: "open"})
				open = true
			}
		}
		out = append(out, s)
	}
	h.Steps = out
}

// Entries returns the flat sequence of entries a history issues, in order.
func (h *History) Entries() []Ent {
	var out []Ent
	for _, s := range h.Steps {
		if s.Op == "write" {
			out = append(out, s.Ents...)
		}
	}
	return out
}

// Apply applies entries to a model state (key -> expanded content).
func Apply(state map[string]string, ents []Ent) map[string]string {
	out := make(map[string]string, len(state)+len(ents))
	for k, v := range state {
		out[k] = v
	}
	for _, e := range ents {
		if e.Del {
			delete(out, e.Key)
		} else {
			out[e.Key] = Expand(e.Val)
		}
	}
	return out
}

// Equal compares two states.
func Equal(a, b map[string]string) bool {
	if len(a) != len(b) {
		return false
	}
	for k, v := range a {
		if w, ok := b[k]; !ok || w != v {
			return false
		}
	}
	return true
}

// Session is an open chronicler with the swamp-side bookkeeping around it.
type Session struct {
	Path  string // swamp data path without ".hyd"
	Name  string
	Chron chronicler.Chronicler
	Bk    beacon.Beacon
	live  map[string]bool
}

// HydFile returns the storage file of a session path.
func HydFile(path string) string { return path + ".hyd" }

// Open creates the chronicler exactly like hydra.loadChronicler does and loads
// the file into a fresh beacon like swamp.New does.
func Open(path, name string) *Session {
	s := &Session{Path: path, Name: name, live: map[string]bool{}}
	s.Chron = chronicler.NewV2WithName(path, 1, name)
	s.Chron.CreateDirectoryIfNotExists()
	s.Bk = beacon.New()
	s.Chron.RegisterFilePointerFunction(func(ev []*chronicler.FileNameEvent) error {
		for _, e := range ev {
			if e == nil {
				continue
			}
			if t := s.Bk.Get(e.TreasureKey); t != nil {
				g := t.StartTreasureGuard(true, guard.BodyAuthID)
				t.BodySetFileName(g, e.FileName)
				t.ReleaseTreasureGuard(g)
			}
		}
		return nil
	})
	s.Chron.RegisterSaveFunction(func(t treasure.Treasure, g guard.ID) treasure.TreasureStatus { return treasure.StatusSame })
	s.Chron.RegisterLiveCountFunction(func() int { return len(s.live) })
	s.Chron.Load(s.Bk)
	for k := range s.State() {
		s.live[k] = true
	}
	return s
}

// State returns the beacon content as key -> content string.
func (s *Session) State() map[string]string {
	out := map[string]string{}
	for k, t := range s.Bk.GetAll() {
		c, err := t.GetContentString()
		if err != nil {
			c = "<non-string content: " + err.Error() + ">"
		}
		out[k] = c
	}
	return out
}

// Write hands the entries to the chronicler in the given order, as one batch.
func (s *Session) Write(ents []Ent) {
	ts := make([]treasure.Treasure, 0, len(ents))
	for _, e := range ents {
		var t treasure.Treasure
		if old := s.Bk.Get(e.Key); old != nil && !e.Del {
			// an update of a record that is in memory goes through the same object (keeps its file name)
			t = old
			g := t.StartTreasureGuard(true, guard.BodyAuthID)
			t.SetContentString(g, Expand(e.Val))
			t.ReleaseTreasureGuard(g)
		} else {
			t = treasure.New(nil)
			g := t.StartTreasureGuard(true, guard.BodyAuthID)
			t.BodySetKey(g, e.Key)
			if e.Del {
				t.BodySetForDeletion(g, "verif", true)
			} else {
				t.SetContentString(g, Expand(e.Val))
			}
			t.ReleaseTreasureGuard(g)
		}
		if e.Del {
			s.Bk.Delete(e.Key)
			delete(s.live, e.Key)
		} else {
			if s.Bk.Get(e.Key) == nil {
				s.Bk.Add(t)
			}
			s.live[e.Key] = true
		}
		ts = append(ts, t)
	}
	s.Chron.Write(ts)
}

// Load opens path in a fresh session, returns the loaded state and closes again
// without writing. It recovers a panic of the loader into err.
func Load(path, name string) (state map[string]string, err error) {
	defer func() {
		if r := recover(); r != nil {
			err = fmt.Errorf("panic while loading: %v", r)
		}
	}()
	s := Open(path, name)
	state = s.State()
	_ = s.Chron.Close()
	return state, nil
}

// Leftovers lists files next to the storage file that are not the storage file itself.
func Leftovers(path string) []string {
	dir := filepath.Dir(path)
	ents, _ := os.ReadDir(dir)
	var out []string
	for _, e := range ents {
		if e.Name() != filepath.Base(path)+".hyd" && strings.HasPrefix(e.Name(), filepath.Base(path)) {
			out = append(out, e.Name())
		}
	}
	return out
}
