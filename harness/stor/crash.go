package stor

import (
	"bytes"
	"fmt"
	"hash/fnv"
	"os"
	"path/filepath"
	"sort"
	"strings"

	"verifharness/systrace"
)

// CrashPoint identifies one materialised crash image of a trace.
type CrashPoint struct {
	Family string `json:"family"` // death | power
	Op     int    `json:"op"`     // crash right before ops[Op] completes
	Torn   int    `json:"torn"`   // death: bytes of ops[Op] written (-1 none); power: torn bytes of last kept write (-1 whole)
	Keep   int    `json:"keep"`   // power: number of unsynced data ops kept per inode (-1 all, -2 pseudo-random per inode)
	Salt   uint64 `json:"salt,omitempty"`
}

// Expectation is what a correct engine may load from an image.
type Expectation struct {
	MainPresent bool
	Durable     int      // entries (of the current epoch) covered by the last fsync
	Flushed     int      // entries (of the current epoch) in blocks completely present in the image
	Boundaries  []int    // acceptable j values (block boundaries within [Durable, Flushed])
	BaseUpTo    int      // global entry index the epoch base reflects
	BaseBroken  string   // non-empty: compaction output under the main name is incomplete
	Role        string   // role of the in-flight / last torn operation
	Compacting  bool     // a compaction temp file exists in the image
	// AckedWithoutMain: the image has no storage file under the swamp's name although that many
	// entries (global index) were acknowledged by a Sync / Close before the crash point (set by the caller)
	AckedWithoutMain int
}

// Image builds the image of a crash point.
func (cp CrashPoint) Image(lg *systrace.Log) systrace.Image {
	if cp.Family == "death" {
		return lg.ProcessDeath(cp.Op, cp.Torn)
	}
	keep := func(ino, n int) int {
		switch {
		case cp.Keep == -1:
			return n
		case cp.Keep == -2:
			if n == 0 {
				return 0
			}
			h := fnv.New64a()
			fmt.Fprintf(h, "%d/%d/%d", cp.Salt, ino, cp.Op)
			return int(h.Sum64() % uint64(n+1))
		}
		return cp.Keep
	}
	torn := func(ino, size int) int {
		if cp.Torn < 0 || size <= 1 {
			return -1
		}
		if cp.Torn >= size {
			return size - 1
		}
		return cp.Torn
	}
	return lg.PowerLoss(cp.Op, keep, torn)
}

// Role classifies op i of the log for signatures.
func Role(lg *systrace.Log, lay *Layout, i int, mainPath string) string {
	if i >= len(lg.Ops) {
		return "end"
	}
	op := &lg.Ops[i]
	sfx := ""
	if op.Path != mainPath && strings.HasSuffix(op.Path, ".compact") {
		sfx = "@temp"
	}
	switch op.Kind {
	case systrace.Write:
		if op.Off == 0 && len(op.Data) == 64 {
			first := true
			for j := 0; j < i; j++ {
				if lg.Ops[j].Kind == systrace.Write && lg.Ops[j].Inode == op.Inode {
					first = false
					break
				}
			}
			if first {
				return "file-header-create" + sfx
			}
			return "file-header-rewrite" + sfx
		}
		if ii := lay.Inodes[op.Inode]; ii != nil {
			for _, b := range ii.Blocks {
				if b.HdrOp == i {
					return "block-header" + sfx
				}
				if b.PayOp == i {
					return "block-payload" + sfx
				}
			}
			if op.Off == 64 && op.Off < ii.DataStart {
				return "swamp-name" + sfx
			}
		}
		return "other-write" + sfx
	case systrace.Mark:
		return "between-steps"
	}
	return op.Kind.String() + sfx
}

// Expect computes the acceptable states of an image from the trace structure.
func Expect(lg *systrace.Log, lay *Layout, cp CrashPoint, img systrace.Image, mainPath string) Expectation {
	ex := Expectation{}
	names := lg.NamesAt(cp.Op)
	for p := range names {
		if strings.HasSuffix(p, ".compact") {
			ex.Compacting = true
		}
	}
	ino, ok := names[mainPath]
	if !ok {
		return ex
	}
	ex.MainPresent = true
	ii := lay.Inodes[ino]
	if ii == nil {
		ii = &InodeInfo{Inode: ino}
	}
	ex.BaseUpTo = ii.BaseUpTo
	lastSync := -1
	for i := 0; i < cp.Op && i < len(lg.Ops); i++ {
		if lg.Ops[i].Kind == systrace.Sync && lg.Ops[i].Inode == ino {
			lastSync = i
		}
	}
	data := img[mainPath]
	complete := func(b *BlockInfo) bool {
		if int64(len(data)) < b.Start+b.Len {
			return false
		}
		want := append(append([]byte(nil), lg.Ops[b.HdrOp].Data...), lg.Ops[b.PayOp].Data...)
		return bytes.Equal(data[b.Start:b.Start+b.Len], want)
	}
	leading := 0
	for i := range ii.Blocks {
		if ii.Blocks[i].HdrOp > cp.Op || !complete(&ii.Blocks[i]) {
			break
		}
		leading++
	}
	nbase := 0
	for i := range ii.Blocks {
		if ii.Blocks[i].Base {
			nbase++
		}
	}
	if leading < nbase {
		ex.BaseBroken = fmt.Sprintf("only %d of %d base blocks of the compacted file are present", leading, nbase)
		return ex
	}
	cum := 0
	ex.Boundaries = nil
	bounds := []int{0}
	for i := nbase; i < len(ii.Blocks); i++ {
		b := &ii.Blocks[i]
		if i < leading {
			cum += b.Entries
			bounds = append(bounds, cum)
			if b.PayOp < lastSync {
				ex.Durable = cum
			}
		}
	}
	ex.Flushed = cum
	for _, j := range bounds {
		if j >= ex.Durable && j <= ex.Flushed {
			ex.Boundaries = append(ex.Boundaries, j)
		}
	}
	return ex
}

// Verdict of one image.
type Verdict struct {
	Class   string // "" = held; otherwise the violated clause
	Detail  string
	Loaded  map[string]string
	MatchJ  int
}

func keysOf(m map[string]string) string {
	var ks []string
	for k, v := range m {
		if len(v) > 12 {
			v = v[:12] + "…"
		}
		ks = append(ks, k+"="+v)
	}
	sort.Strings(ks)
	s := strings.Join(ks, ",")
	if len(s) > 600 {
		s = s[:600] + "…"
	}
	return "{" + s + "}"
}

// Judge loads an image (already materialised at path) and decides clauses
// (1)-(3) of the crash property; then continues writing and reloads (4).
func Judge(path, name string, h *History, ex Expectation, fresh []Ent) Verdict {
	ents := h.Entries()
	s, err := safeOpen(path, name)
	if err != nil {
		return Verdict{Class: "load-panic", Detail: err.Error()}
	}
	st := s.State()
	v := Verdict{Loaded: st, MatchJ: -1}
	if !ex.MainPresent {
		if ex.AckedWithoutMain > 0 {
			// the swamp's file is gone although data had been acknowledged as durable: only a state that
			// contains all of it is acceptable (some other file would have to carry it)
			okState := false
			for j := ex.AckedWithoutMain; j <= len(ents); j++ {
				if Equal(st, Apply(map[string]string{}, ents[:j])) {
					okState = true
					break
				}
			}
			if !okState {
				v.Class = "storage-file-missing-after-crash"
				v.Detail = fmt.Sprintf("the image holds no file under the swamp's name although %d entries had been acknowledged by Sync/Close before the crash; loaded %s, the acknowledged state is %s",
					ex.AckedWithoutMain, keysOf(st), keysOf(Apply(map[string]string{}, ents[:ex.AckedWithoutMain])))
			}
		} else if len(st) != 0 {
			v.Class, v.Detail = "phantom-data", "no storage file in the image but loaded "+keysOf(st)
		}
		_ = s.Chron.Close()
		return v
	}
	if ex.BaseBroken != "" {
		v.Class, v.Detail = "compaction-not-atomic", ex.BaseBroken+"; loaded "+keysOf(st)
		_ = s.Chron.Close()
		return v
	}
	base := Apply(map[string]string{}, ents[:ex.BaseUpTo])
	for _, j := range ex.Boundaries {
		if ex.BaseUpTo+j > len(ents) {
			break
		}
		if Equal(st, Apply(base, ents[ex.BaseUpTo:ex.BaseUpTo+j])) {
			v.MatchJ = j
			break
		}
	}
	if v.MatchJ < 0 {
		// classify
		cls := "inconsistent-state"
		if len(ex.Boundaries) == 0 {
			// the entries a successful Sync / Close covered are not all in the image: no state is acceptable
			cls = "acknowledged-barrier-not-durable"
		} else if len(st) == 0 {
			cls = "empty-after-crash"
		} else {
			for j := 0; j < ex.Durable && ex.BaseUpTo+j <= len(ents); j++ {
				if Equal(st, Apply(base, ents[ex.BaseUpTo:ex.BaseUpTo+j])) {
					cls = "durable-suffix-lost"
				}
			}
		}
		want := Apply(base, ents[ex.BaseUpTo:min(len(ents), ex.BaseUpTo+ex.Durable)])
		v.Class = cls
		v.Detail = fmt.Sprintf("loaded %s; durable entries %d, flushed %d, acceptable boundaries %v (epoch base %d); state at the durable boundary would be %s",
			keysOf(st), ex.Durable, ex.Flushed, ex.Boundaries, ex.BaseUpTo, keysOf(want))
		_ = s.Chron.Close()
		return v
	}
	// (4) recover-and-continue
	s.Write(fresh)
	if err := s.Chron.Sync(); err != nil {
		v.Class, v.Detail = "continue-sync-error", err.Error()
		_ = s.Chron.Close()
		return v
	}
	if err := s.Chron.Close(); err != nil {
		v.Class, v.Detail = "continue-close-error", err.Error()
		return v
	}
	st2, err := Load(path, name)
	if err != nil {
		v.Class, v.Detail = "continue-load-panic", err.Error()
		return v
	}
	want := Apply(st, fresh)
	if !Equal(st2, want) {
		v.Class = "writes-after-recovery-lost"
		v.Detail = fmt.Sprintf("after recovery loaded %s, wrote %d fresh entries, synced and closed; reload gives %s instead of %s", keysOf(st), len(fresh), keysOf(st2), keysOf(want))
	}
	return v
}

func safeOpen(path, name string) (s *Session, err error) {
	defer func() {
		if r := recover(); r != nil {
			err = fmt.Errorf("panic while loading: %v", r)
		}
	}()
	return Open(path, name), nil
}

// Materialise writes img (paths under root) below dir and returns the swamp path there.
func Materialise(img systrace.Image, root, dir string) (string, error) {
	_ = os.RemoveAll(dir)
	if err := os.MkdirAll(filepath.Join(dir, "d"), 0o755); err != nil {
		return "", err
	}
	if err := img.WriteTo(root, dir); err != nil {
		return "", err
	}
	return SwampPath(dir), nil
}

// ImageHash identifies an image by content.
func ImageHash(img systrace.Image) uint64 {
	var ps []string
	for p := range img {
		ps = append(ps, p)
	}
	sort.Strings(ps)
	h := fnv.New64a()
	for _, p := range ps {
		fmt.Fprintf(h, "%s:%d:", p, len(img[p]))
		h.Write(img[p])
	}
	return h.Sum64()
}
