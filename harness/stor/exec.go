package stor

import (
	"context"
	"encoding/binary"
	"encoding/json"
	"fmt"
	"log/slog"
	"os"
	"os/exec"
	"os/signal"
	"path/filepath"
	"runtime"
	"strings"
	"sync"
	"syscall"

	v2 "github.com/hydraide/hydraide/app/core/hydra/swamp/chronicler/v2"

	"verifharness/systrace"
)

// StepResult is what the executor observed for one step.
type StepResult struct {
	Err  string   `json:"err,omitempty"`  // error returned by Sync / Close / ForceCompaction
	Logs []string `json:"logs,omitempty"` // slog WARN/ERROR messages emitted during the step
}

// ExecResult is the executor's report.
type ExecResult struct {
	Steps []StepResult `json:"steps"`
	Final map[string]string `json:"final,omitempty"`
	Panic string `json:"panic,omitempty"`
}

type logCatcher struct {
	mu  sync.Mutex
	cur []string
}

func (l *logCatcher) Enabled(_ context.Context, lv slog.Level) bool { return lv >= slog.LevelWarn }
func (l *logCatcher) WithAttrs([]slog.Attr) slog.Handler            { return l }
func (l *logCatcher) WithGroup(string) slog.Handler                 { return l }
func (l *logCatcher) Handle(_ context.Context, r slog.Record) error {
	var sb strings.Builder
	sb.WriteString(r.Level.String() + " " + r.Message)
	r.Attrs(func(a slog.Attr) bool {
		if a.Key == "error" {
			sb.WriteString(" error=" + a.Value.String())
		}
		return true
	})
	l.mu.Lock()
	l.cur = append(l.cur, sb.String())
	l.mu.Unlock()
	return nil
}
func (l *logCatcher) take() []string {
	l.mu.Lock()
	defer l.mu.Unlock()
	out := l.cur
	l.cur = nil
	return out
}

// SwampPath is where the executor keeps the swamp under root.
func SwampPath(root string) string { return filepath.Join(root, "d", "sw") }

// MarkPath is the marker file under root.
func MarkPath(root string) string { return filepath.Join(root, "MARK") }

// Exec runs a history against the real chronicler under root. All storage calls
// are made from one locked OS thread. Step boundaries are written to the marker
// file so that they are visible in a syscall trace.
func Exec(h *History, root string) (res *ExecResult) {
	runtime.LockOSThread()
	signal.Ignore(syscall.SIGXFSZ)
	lc := &logCatcher{}
	slog.SetDefault(slog.New(lc))
	res = &ExecResult{}
	mark, err := os.OpenFile(MarkPath(root), os.O_WRONLY|os.O_CREATE|os.O_APPEND, 0o644)
	if err != nil {
		res.Panic = "cannot open marker: " + err.Error()
		return res
	}
	defer mark.Close()
	path := SwampPath(root)
	var s *Session
	defer func() {
		if r := recover(); r != nil {
			res.Panic = fmt.Sprint(r)
		}
	}()
	var unlimited syscall.Rlimit
	_ = syscall.Getrlimit(syscall.RLIMIT_FSIZE, &unlimited)
	for i, st := range h.Steps {
		_, _ = mark.WriteString(fmt.Sprintf("B %d %s\n", i, st.Op))
		var sr StepResult
		switch st.Op {
		case "open":
			if s != nil {
				_ = s.Chron.Close()
			}
			s = Open(path, h.Name)
		case "write":
			if s == nil {
				s = Open(path, h.Name)
			}
			s.Write(st.Ents)
		case "sync":
			if s != nil {
				if err := s.Chron.Sync(); err != nil {
					sr.Err = err.Error()
				}
			}
		case "close":
			if s != nil {
				if err := s.Chron.Close(); err != nil {
					sr.Err = err.Error()
				}
				s = nil
			}
		case "compact":
			if s == nil {
				s = Open(path, h.Name)
			}
			if err := s.Chron.ForceCompaction(); err != nil {
				sr.Err = err.Error()
			}
		case "plant":
			// a leftover file next to the storage file (e.g. ".compact" from an interrupted compaction)
			if err := os.WriteFile(HydFile(path)+st.File, st.Data, 0o644); err != nil {
				sr.Err = err.Error()
			}
		case "cli":
			// what hydraidectl compact does (compactSwamp = NewCompactor(...).Compact()), on a closed swamp
			if s != nil {
				_ = s.Chron.Close()
				s = nil
			}
			hyd := HydFile(path)
			var cerr error
			switch st.File {
			case "force":
				_, cerr = v2.NewCompactor(hyd, v2.DefaultMaxBlockSize, 0.3).ForceCompact()
			case "ifneeded":
				_, cerr = v2.NewCompactor(hyd, v2.DefaultMaxBlockSize, 0.3).CompactIfNeeded()
			case "dir":
				var rs map[string]*v2.CompactionResult
				rs, cerr = v2.CompactDirectory(filepath.Dir(hyd), v2.DefaultMaxBlockSize, 0.3)
				for _, r := range rs {
					if r != nil && r.Error != nil && cerr == nil {
						cerr = r.Error
					}
				}
			default:
				_, cerr = v2.NewCompactor(hyd, v2.DefaultMaxBlockSize, 0.3).Compact()
			}
			if cerr != nil {
				sr.Err = cerr.Error()
			}
		case "limit":
			lim := syscall.Rlimit{Cur: uint64(st.N), Max: unlimited.Max}
			if err := syscall.Setrlimit(syscall.RLIMIT_FSIZE, &lim); err != nil {
				sr.Err = "setrlimit: " + err.Error()
			}
		case "unlimit":
			if err := syscall.Setrlimit(syscall.RLIMIT_FSIZE, &unlimited); err != nil {
				sr.Err = "setrlimit: " + err.Error()
			}
		}
		sr.Logs = lc.take()
		res.Steps = append(res.Steps, sr)
		e := "ok"
		if sr.Err != "" {
			e = "err"
		}
		_, _ = mark.WriteString(fmt.Sprintf("E %d %s\n", i, e))
	}
	if s != nil {
		res.Final = s.State()
	}
	return res
}

// ExecFromEnv is the body of the TestStorExec helper test that every
// storage-property package defines: it runs the history named by the
// environment (set by Trace) and writes the result file.
func ExecFromEnv() bool {
	hp := os.Getenv("VERIF_STOR_HIST")
	if hp == "" {
		return false
	}
	b, err := os.ReadFile(hp)
	if err != nil {
		panic(err)
	}
	var h History
	if err := json.Unmarshal(b, &h); err != nil {
		panic(err)
	}
	res := Exec(&h, os.Getenv("VERIF_STOR_ROOT"))
	out, _ := json.Marshal(res)
	if err := os.WriteFile(os.Getenv("VERIF_STOR_RESULT"), out, 0o644); err != nil {
		panic(err)
	}
	return true
}

// Traced is one recorded execution.
type Traced struct {
	Root   string
	Hist   *History
	Res    *ExecResult
	Log    *systrace.Log
	Stderr string
}

// Trace executes h in a child process (this test binary, test TestStorExec)
// under the strace recorder, with extra strace arguments (fault injection) and
// the given pre-existing files (relative to root). It returns the parsed log.
func Trace(h *History, root string, initial map[string][]byte, extraStrace []string, single bool) (*Traced, error) {
	h.Normalize()
	if err := os.MkdirAll(filepath.Dir(SwampPath(root)), 0o755); err != nil {
		return nil, err
	}
	absInit := map[string][]byte{}
	for rel, b := range initial {
		p := filepath.Join(root, rel)
		_ = os.MkdirAll(filepath.Dir(p), 0o755)
		if err := os.WriteFile(p, b, 0o644); err != nil {
			return nil, err
		}
		absInit[p] = b
	}
	hp := filepath.Join(root, "hist.json")
	rp := filepath.Join(root, "result.json")
	tp := filepath.Join(root, "trace.txt")
	hb, _ := json.Marshal(h)
	if err := os.WriteFile(hp, hb, 0o644); err != nil {
		return nil, err
	}
	args := systrace.StraceArgs(tp)
	args = append(args, extraStrace...)
	args = append(args, os.Args[0], "-test.run=^TestStorExec$", "-test.timeout=0")
	cmd := exec.Command("strace", args...)
	cmd.Env = append(os.Environ(), "VERIF_STOR_HIST="+hp, "VERIF_STOR_ROOT="+root, "VERIF_STOR_RESULT="+rp, "GORACE=", "VERIF_CHILD_OUT=")
	if single {
		cmd.Env = append(cmd.Env, "GOMAXPROCS=1")
	}
	out, err := cmd.CombinedOutput()
	tr := &Traced{Root: root, Hist: h, Stderr: string(out)}
	if err != nil {
		return tr, fmt.Errorf("traced executor failed: %v: %s", err, tail(string(out), 2000))
	}
	rb, err := os.ReadFile(rp)
	if err != nil {
		return tr, fmt.Errorf("no executor result: %v: %s", err, tail(string(out), 2000))
	}
	tr.Res = &ExecResult{}
	if err := json.Unmarshal(rb, tr.Res); err != nil {
		return tr, err
	}
	lg, err := systrace.Parse(tp, filepath.Join(root, "d"), MarkPath(root), absInit)
	if err != nil {
		return tr, err
	}
	tr.Log = lg
	_ = os.Remove(tp)
	return tr, nil
}

func tail(s string, n int) string {
	if len(s) > n {
		return s[len(s)-n:]
	}
	return s
}

// ---------------------------------------------------------------------------
// Structure of the recorded file: blocks, epochs, barriers

// BlockInfo is one block (header write + payload write) appended to an inode.
type BlockInfo struct {
	HdrOp, PayOp int   // indexes into Log.Ops
	Start        int64 // file offset of the 16-byte header
	Len          int64 // 16 + compressed size
	Entries      int
	Base         bool // written before the inode got the main name (compaction output)
}

// InodeInfo describes one storage-file inode of the trace.
type InodeInfo struct {
	Inode     int
	Blocks    []BlockInfo
	DataStart int64
	RenameOp  int // op index at which it received the main name by rename (-1: created under it / pre-existing)
	BaseUpTo  int // number of history entries (global index) its base content reflects
}

// Layout is the structural reading of a trace.
type Layout struct {
	Inodes   map[int]*InodeInfo
	StepOfOp []int // step index active at each op (from markers), -1 before the first
	StepEnd  map[int]int // step -> op index of its end marker
	Problems []string
}

// Analyze reads block structure, epochs and step boundaries off the op log.
// mainPath is the absolute .hyd path; entriesThroughStep[i] = number of history
// entries issued by steps 0..i.
func Analyze(lg *systrace.Log, mainPath string, h *History) *Layout {
	lay := &Layout{Inodes: map[int]*InodeInfo{}, StepEnd: map[int]int{}}
	through := make([]int, len(h.Steps))
	n := 0
	for i, s := range h.Steps {
		if s.Op == "write" {
			n += len(s.Ents)
		}
		through[i] = n
	}
	pos := map[int]int64{}      // next expected block offset per inode
	pendingHdr := map[int]int{} // inode -> op idx of a header write waiting for its payload
	get := func(ino int) *InodeInfo {
		ii := lay.Inodes[ino]
		if ii == nil {
			ii = &InodeInfo{Inode: ino, RenameOp: -1, DataStart: -1}
			lay.Inodes[ino] = ii
		}
		return ii
	}
	cur := -1
	underMain := map[int]bool{}
	inoOfPath := map[string]int{}
	for p := range lg.Initial {
		inoOfPath[p] = lg.InitialInode(p)
	}
	for i := range lg.Ops {
		op := &lg.Ops[i]
		if op.Kind == systrace.Mark {
			var idx int
			var kind, rest string
			parts := strings.Fields(op.Path)
			if len(parts) >= 2 {
				kind = parts[0]
				fmt.Sscanf(parts[1], "%d", &idx)
				if len(parts) > 2 {
					rest = parts[2]
				}
				_ = rest
				if kind == "B" {
					cur = idx
				} else if kind == "E" {
					lay.StepEnd[idx] = i
				}
			}
		}
		lay.StepOfOp = append(lay.StepOfOp, cur)
		switch op.Kind {
		case systrace.Create:
			inoOfPath[op.Path] = op.Inode
			ii := get(op.Inode)
			if op.Path == mainPath {
				underMain[op.Inode] = true
				ii.BaseUpTo = 0
			}
		case systrace.Rename:
			if ino, ok := inoOfPath[op.Path]; ok {
				inoOfPath[op.Path2] = ino
				delete(inoOfPath, op.Path)
				if op.Path2 == mainPath {
					ii := get(ino)
					ii.RenameOp = i
					underMain[ino] = true
					st := cur
					if st >= 0 && st < len(through) {
						ii.BaseUpTo = through[st]
					}
					for b := range ii.Blocks {
						ii.Blocks[b].Base = true
					}
				}
			}
		case systrace.Unlink:
			delete(inoOfPath, op.Path)
		case systrace.Write:
			ii := get(op.Inode)
			if op.Off == 0 && len(op.Data) == 64 && string(op.Data[:4]) == "HYDR" {
				if ii.DataStart < 0 {
					nl := int64(binary.LittleEndian.Uint16(op.Data[44:46]))
					if binary.LittleEndian.Uint16(op.Data[4:6]) != 3 {
						nl = 0
					}
					ii.DataStart = 64 + nl
					pos[op.Inode] = ii.DataStart
				}
				continue
			}
			if ii.DataStart < 0 {
				// writer on a pre-existing file: appends start at its size
				for p := range lg.Initial {
					if lg.InitialInode(p) == op.Inode {
						ii.DataStart = 0
						pos[op.Inode] = int64(len(lg.Initial[p]))
					}
				}
			}
			if op.Off == 64 && op.Off < ii.DataStart {
				continue // swamp name after the header
			}
			if h, ok := pendingHdr[op.Inode]; ok {
				hop := &lg.Ops[h]
				csz := int64(binary.LittleEndian.Uint32(hop.Data[0:4]))
				if op.Off == hop.Off+16 && int64(len(op.Data)) == csz && !op.Short {
					ii.Blocks = append(ii.Blocks, BlockInfo{HdrOp: h, PayOp: i, Start: hop.Off, Len: 16 + csz,
						Entries: int(binary.LittleEndian.Uint16(hop.Data[8:10]))})
					pos[op.Inode] = hop.Off + 16 + csz
					delete(pendingHdr, op.Inode)
					continue
				}
				lay.Problems = append(lay.Problems, fmt.Sprintf("op %d: write at %d len %d does not complete block header at op %d", i, op.Off, len(op.Data), h))
				delete(pendingHdr, op.Inode)
				continue
			}
			if len(op.Data) == 16 && op.Off == pos[op.Inode] && !op.Short {
				pendingHdr[op.Inode] = i
				continue
			}
			lay.Problems = append(lay.Problems, fmt.Sprintf("op %d: unclassified write inode %d off %d len %d (expected block at %d)", i, op.Inode, op.Off, len(op.Data), pos[op.Inode]))
		}
	}
	return lay
}

