// C10 — concurrent use never crashes the server or races on memory.
//
// Reader goroutines (GetAll, Get, GetByKeys, GetByIndex on every index type, GetByIndexStream on
// both query routes, Count) run against writer goroutines (Set of versioned records, PatchTreasures,
// Delete, ShiftByKeys, ShiftExpired, increments, key churn) on the same swamp, in child processes built
// with the race detector. Observed: race reports (reduced to function-pair signatures), fatal runtime
// errors, recovered panics, and - for the consistency clause - whether every record a reader received
// carries value and metadata of one and the same committed version.
package c10

import (
	"context"
	"fmt"
	"os"
	"path/filepath"
	"runtime"
	"sort"
	"strings"
	"sync"
	"sync/atomic"
	"testing"
	"time"

	"github.com/vmihailenco/msgpack/v5"
	"google.golang.org/grpc/metadata"
	"google.golang.org/protobuf/types/known/timestamppb"

	hydrapb "github.com/hydraide/hydraide/sdk/go/hydraidego/v3/hydraidepbgo"

	"verifharness/rig"
)

type spec struct {
	Mix   string `json:"mix"`
	Rep   int    `json:"rep"`
	Ops   int    `json:"ops"` // operations per goroutine
	InMem bool   `json:"inmem"`
	Write int64  `json:"write"`
}

var mixes = []string{"set-vs-get", "set-vs-getall", "set-vs-index", "churn-vs-all", "patch-vs-stream", "shift-vs-all"}

var t0 = time.Date(2030, 1, 1, 0, 0, 0, 0, time.UTC)
var t1 = time.Date(2090, 1, 1, 0, 0, 0, 0, time.UTC)

// ---- fake stream -----------------------------------------------------------

type stream struct {
	ctx  context.Context
	mu   sync.Mutex
	recs []*hydrapb.Treasure
}

func (s *stream) Send(m *hydrapb.GetByIndexStreamResponse) error {
	s.mu.Lock()
	if m != nil && m.Treasure != nil {
		s.recs = append(s.recs, m.Treasure)
	}
	s.mu.Unlock()
	return nil
}
func (s *stream) SetHeader(metadata.MD) error  { return nil }
func (s *stream) SendHeader(metadata.MD) error { return nil }
func (s *stream) SetTrailer(metadata.MD)       {}
func (s *stream) Context() context.Context     { return s.ctx }
func (s *stream) SendMsg(any) error            { return nil }
func (s *stream) RecvMsg(any) error            { return nil }

// ---- workload --------------------------------------------------------------

type world struct {
	c    *rig.Check
	r    *rig.Rig
	sw   string
	isl  uint64
	ver  atomic.Int64
	torn atomic.Int64
	recs atomic.Int64
	errs atomic.Int64
	progress atomic.Int64
	deadline time.Time
	mu   sync.Mutex
	tornSamples []string
}

func docBody(v int64) []byte {
	b, _ := msgpack.Marshal(map[string]any{"v": v, "tag": fmt.Sprintf("t%d", v%5), "w": fmt.Sprintf("w%d", v)})
	return append([]byte{0xC7, 0x00}, b...)
}

func (w *world) setVersioned(key string) {
	v := w.ver.Add(1)
	by := fmt.Sprintf("w%d", v)
	_, err := w.r.GW.Set(context.Background(), &hydrapb.SetRequest{Swamps: []*hydrapb.SwampRequest{{IslandID: w.isl, SwampName: w.sw, CreateIfNotExist: true, Overwrite: true,
		KeyValues: []*hydrapb.KeyValuePair{{Key: key, Int64Val: &v, UpdatedBy: &by, CreatedBy: &by,
			UpdatedAt: timestamppb.New(t0.Add(time.Duration(v) * time.Second)),
			CreatedAt: timestamppb.New(t0.Add(time.Duration(v) * time.Second)),
			ExpiredAt: timestamppb.New(t1.Add(time.Duration(v) * time.Second))}}}}})
	if err != nil {
		w.errs.Add(1)
	}
}

func (w *world) setDoc(key string) {
	v := w.ver.Add(1)
	_, err := w.r.GW.Set(context.Background(), &hydrapb.SetRequest{Swamps: []*hydrapb.SwampRequest{{IslandID: w.isl, SwampName: w.sw, CreateIfNotExist: true, Overwrite: true,
		KeyValues: []*hydrapb.KeyValuePair{{Key: key, BytesVal: docBody(v)}}}}})
	if err != nil {
		w.errs.Add(1)
	}
}

// check one returned record of the versioned pool: all four attributes must belong to one version
func (w *world) checkRec(where string, t *hydrapb.Treasure) {
	if t == nil || !t.IsExist || !strings.HasPrefix(t.Key, "ver-") {
		return
	}
	w.recs.Add(1)
	if t.Int64Val == nil {
		// KeysOnly style answers carry no value
		return
	}
	v := t.GetInt64Val()
	ok := t.GetUpdatedBy() == fmt.Sprintf("w%d", v) && t.GetCreatedBy() == fmt.Sprintf("w%d", v) &&
		t.GetUpdatedAt() != nil && t.GetUpdatedAt().AsTime().Equal(t0.Add(time.Duration(v)*time.Second)) &&
		t.GetExpiredAt() != nil && t.GetExpiredAt().AsTime().Equal(t1.Add(time.Duration(v)*time.Second))
	if !ok {
		w.torn.Add(1)
		w.mu.Lock()
		if len(w.tornSamples) < 5 {
			w.tornSamples = append(w.tornSamples, fmt.Sprintf("%s: key=%s value=%d updatedBy=%s createdBy=%s updatedAt=%v expiredAt=%v", where, t.Key, v, t.GetUpdatedBy(), t.GetCreatedBy(), t.GetUpdatedAt().AsTime(), t.GetExpiredAt().AsTime()))
		}
		w.mu.Unlock()
		w.c.Seen("torn_read_paths", where)
	}
}

var indexTypes = []hydrapb.IndexType_Type{hydrapb.IndexType_CREATION_TIME, hydrapb.IndexType_UPDATE_TIME, hydrapb.IndexType_EXPIRATION_TIME, hydrapb.IndexType_VALUE_INT64, hydrapb.IndexType_KEY}

func (w *world) reader(kind string, seed int, n int) {
	ctx := context.Background()
	r := w.c.Rand(1000 + seed)
	for i := 0; i < n; i++ {
		if i&15 == 0 && time.Now().After(w.deadline) {
			return // the workload is capped by operations and by time; the evidence counts what ran
		}
		w.progress.Add(1)
		switch kind {
		case "get":
			resp, err := w.r.GW.Get(ctx, &hydrapb.GetRequest{Swamps: []*hydrapb.GetSwamp{{IslandID: w.isl, SwampName: w.sw, Keys: []string{fmt.Sprintf("ver-%d", r.IntN(6)), fmt.Sprintf("ver-%d", r.IntN(6))}}}})
			if err == nil && resp != nil {
				for _, s := range resp.Swamps {
					for _, t := range s.Treasures {
						w.checkRec("Get", t)
					}
				}
			}
		case "getall":
			resp, err := w.r.GW.GetAll(ctx, &hydrapb.GetAllRequest{IslandID: w.isl, SwampName: w.sw})
			if err == nil && resp != nil {
				for _, t := range resp.Treasures {
					w.checkRec("GetAll", t)
				}
			}
		case "getbykeys":
			resp, err := w.r.GW.GetByKeys(ctx, &hydrapb.GetByKeysRequest{IslandID: w.isl, SwampName: w.sw, Keys: []string{"ver-0", "ver-1", "ver-2", "churn-1", "doc-1"}})
			if err == nil && resp != nil {
				for _, t := range resp.Treasures {
					w.checkRec("GetByKeys", t)
				}
			}
		case "index":
			it := indexTypes[r.IntN(len(indexTypes))]
			ot := hydrapb.OrderType_ASC
			if r.IntN(2) == 0 {
				ot = hydrapb.OrderType_DESC
			}
			resp, err := w.r.GW.GetByIndex(ctx, &hydrapb.GetByIndexRequest{IslandID: w.isl, SwampName: w.sw, IndexType: it, OrderType: ot, From: 0, Limit: int32(r.IntN(30))})
			if err == nil && resp != nil {
				for _, t := range resp.Treasures {
					w.checkRec("GetByIndex:"+it.String(), t)
				}
			}
		case "stream":
			st := &stream{ctx: ctx}
			var fg *hydrapb.FilterGroup
			tag := fmt.Sprintf("t%d", r.IntN(5))
			leg := &hydrapb.TreasureFilter{Operator: hydrapb.Relational_EQUAL, BytesFieldPath: strPtr("tag"), CompareValue: &hydrapb.TreasureFilter_StringVal{StringVal: tag}}
			if r.IntN(2) == 0 {
				fg = &hydrapb.FilterGroup{Logic: hydrapb.FilterLogic_AND, Filters: []*hydrapb.TreasureFilter{leg}} // bucket route
			} else {
				fg = &hydrapb.FilterGroup{Logic: hydrapb.FilterLogic_OR, SubGroups: []*hydrapb.FilterGroup{{Logic: hydrapb.FilterLogic_AND, Filters: []*hydrapb.TreasureFilter{leg}}}} // scan route
			}
			_ = w.r.GW.GetByIndexStream(&hydrapb.GetByIndexStreamRequest{IslandID: w.isl, SwampName: w.sw, IndexType: hydrapb.IndexType_KEY, OrderType: hydrapb.OrderType_ASC, Filters: fg}, st)
			for _, t := range st.recs {
				w.checkRec("GetByIndexStream", t)
			}
		case "count":
			_, _ = w.r.GW.Count(ctx, &hydrapb.CountRequest{Swamps: []*hydrapb.CountRequest_SwampIdentifier{{IslandID: w.isl, SwampName: w.sw}}})
		}
	}
}

func strPtr(s string) *string { return &s }

func (w *world) writer(kind string, seed int, n int) {
	ctx := context.Background()
	r := w.c.Rand(2000 + seed)
	for i := 0; i < n; i++ {
		if i&15 == 0 && time.Now().After(w.deadline) {
			return // the workload is capped by operations and by time; the evidence counts what ran
		}
		w.progress.Add(1)
		switch kind {
		case "set":
			w.setVersioned(fmt.Sprintf("ver-%d", r.IntN(6)))
		case "churn":
			k := fmt.Sprintf("churn-%d", r.IntN(400))
			if r.IntN(3) == 0 {
				_, _ = w.r.GW.Delete(ctx, &hydrapb.DeleteRequest{Swamps: []*hydrapb.DeleteRequest_SwampKeys{{IslandID: w.isl, SwampName: w.sw, Keys: []string{k}}}})
			} else {
				w.setVersioned(k)
			}
		case "patch":
			k := fmt.Sprintf("doc-%d", r.IntN(8))
			if r.IntN(4) == 0 {
				w.setDoc(k)
				continue
			}
			b, _ := msgpack.Marshal(fmt.Sprintf("t%d", r.IntN(5)))
			_, _ = w.r.GW.PatchTreasures(ctx, &hydrapb.PatchTreasuresRequest{IslandID: w.isl, SwampName: w.sw, Patches: []*hydrapb.TreasurePatch{{Key: k,
				Ops: []*hydrapb.PatchOp{{Op: hydrapb.PatchOp_SET, Path: "tag", Value: b}, {Op: hydrapb.PatchOp_INC, Path: "v", Value: mp(int64(1))}}}}})
		case "shift":
			k := fmt.Sprintf("churn-%d", r.IntN(400))
			switch r.IntN(3) {
			case 0:
				_, _ = w.r.GW.ShiftByKeys(ctx, &hydrapb.ShiftByKeysRequest{IslandID: w.isl, SwampName: w.sw, Keys: []string{k, "churn-1"}})
			case 1:
				_, _ = w.r.GW.ShiftExpiredTreasures(ctx, &hydrapb.ShiftExpiredTreasuresRequest{IslandID: w.isl, SwampName: w.sw, HowMany: 3})
			default:
				// an already expired record to be claimed
				v := w.ver.Add(1)
				_, _ = w.r.GW.Set(ctx, &hydrapb.SetRequest{Swamps: []*hydrapb.SwampRequest{{IslandID: w.isl, SwampName: w.sw, CreateIfNotExist: true, Overwrite: true,
					KeyValues: []*hydrapb.KeyValuePair{{Key: fmt.Sprintf("exp-%d", v%50), Int64Val: &v, ExpiredAt: timestamppb.New(time.Now().Add(-time.Hour))}}}}})
			}
		case "inc":
			_, _ = w.r.GW.IncrementInt64(ctx, &hydrapb.IncrementInt64Request{IslandID: w.isl, SwampName: w.sw, Key: fmt.Sprintf("cnt-%d", r.IntN(3)), IncrementBy: 1})
		}
	}
}

func mp(v any) []byte { b, _ := msgpack.Marshal(v); return b }

func plan(mix string) (readers, writers []string) {
	switch mix {
	case "set-vs-get":
		return []string{"get", "get", "getbykeys"}, []string{"set", "set", "inc"}
	case "set-vs-getall":
		return []string{"getall", "getall", "count"}, []string{"set", "churn", "churn"}
	case "set-vs-index":
		return []string{"index", "index", "index"}, []string{"set", "churn", "inc"}
	case "churn-vs-all":
		return []string{"getall", "index", "get", "stream"}, []string{"churn", "churn", "churn", "set"}
	case "patch-vs-stream":
		return []string{"stream", "stream", "getall"}, []string{"patch", "patch", "set"}
	default: // shift-vs-all
		return []string{"getall", "index", "getbykeys", "count"}, []string{"shift", "shift", "churn", "set"}
	}
}

func runChild(c *rig.Check, sp spec) {
	root := rig.TempRoot("c10")
	defer rig.RemoveAll(root)
	r := rig.New(rig.Options{Root: root})
	r.Register("c10/*/*", sp.InMem, 3600, sp.Write)
	w := &world{c: c, r: r, sw: fmt.Sprintf("c10/%s/r%d", strings.ReplaceAll(sp.Mix, "-", ""), sp.Rep), deadline: time.Now().Add(c.NDur(75*time.Second, 6*time.Minute))}
	w.isl = rig.Island(w.sw)
	// seed content
	for k := 0; k < 6; k++ {
		w.setVersioned(fmt.Sprintf("ver-%d", k))
	}
	for k := 0; k < 8; k++ {
		w.setDoc(fmt.Sprintf("doc-%d", k))
	}
	w.setVersioned("zz-sentinel")
	readers, writers := plan(sp.Mix)
	var wg sync.WaitGroup
	start := make(chan struct{})
	for i, k := range readers {
		wg.Add(1)
		go func(i int, k string) { defer wg.Done(); <-start; w.reader(k, sp.Rep*100+i, sp.Ops) }(i, k)
	}
	for i, k := range writers {
		wg.Add(1)
		go func(i int, k string) { defer wg.Done(); <-start; w.writer(k, sp.Rep*100+i, sp.Ops) }(i, k)
	}
	close(start)
	key := fmt.Sprintf("%s/rep%d/inmem=%v/w=%d", sp.Mix, sp.Rep, sp.InMem, sp.Write)
	// stall monitor: when not a single request of any goroutine has completed for a long while, look
	// at the goroutine dump; request goroutines parked in the engine's own locks = dead-lock
	finished := make(chan struct{})
	go func() { wg.Wait(); close(finished) }()
	last, lastChange := int64(-1), time.Now()
stall:
	for {
		select {
		case <-finished:
			break stall
		case <-time.After(2 * time.Second):
			if p := w.progress.Load(); p != last {
				last, lastChange = p, time.Now()
				continue
			}
			if time.Since(lastChange) < 40*time.Second {
				continue
			}
			buf := make([]byte, 8<<20)
			buf = buf[:runtime.Stack(buf, true)]
			dump := filepath.Join(os.Getenv("VERIF_SCRATCH"), "stall-dump.txt")
			_ = os.WriteFile(dump, buf, 0o644)
			where := rig.StuckIn(dump)
			c.Case(key, true)
			if where != "" {
				c.Violate("hang:"+sp.Mix+":"+lockCycleClass(where), fmt.Sprintf("the workload %s (rep %d) stopped making progress after %d completed requests: request goroutines are parked in %s", sp.Mix, sp.Rep, last, where), map[string]any{"spec": sp, "goroutines": firstLines(string(buf), 20000)})
			} else {
				c.Inconclusive("no request completed for 40 s but no request goroutine is parked in engine code")
			}
			c.Finish()
			os.Exit(0)
		}
	}
	panics := rig.InstallSentinel().Drain("panic")
	c.Case(key, w.recs.Load() > 0)
	c.Count("operations", w.progress.Load())
	if w.progress.Load() < int64(sp.Ops*(len(readers)+len(writers))) {
		c.Count("children_stopped_by_time_cap", 1)
	}
	c.Count("records_checked_for_version_consistency", w.recs.Load())
	c.Count("error_replies", w.errs.Load())
	for _, rd := range readers {
		for _, wr := range writers {
			c.Seen("concurrent_pairs", rd+"||"+wr)
		}
	}
	if n := w.torn.Load(); n > 0 {
		paths := map[string]bool{}
		for _, s := range w.tornSamples {
			paths[strings.SplitN(s, ":", 2)[0]] = true
		}
		var ps []string
		for p := range paths {
			ps = append(ps, p)
		}
		sort.Strings(ps)
		for _, p := range ps {
			c.Violate("torn-read:"+p, fmt.Sprintf("%d records returned to readers mix value and metadata of different committed versions, e.g. %s", n, strings.Join(w.tornSamples, " | ")), map[string]any{"spec": sp})
		}
	}
	seen := map[string]bool{}
	for _, p := range panics {
		sig := panicSig(p.Attrs)
		if seen[sig] {
			continue
		}
		seen[sig] = true
		c.Violate("recovered-panic:"+sig, "a request panicked under concurrent use: "+p.Msg+" "+firstLines(p.Attrs, 600), map[string]any{"spec": sp})
	}
	c.Sample(map[string]any{"mix": sp.Mix, "readers": readers, "writers": writers, "ops_per_goroutine": sp.Ops, "records_checked": w.recs.Load(), "torn": w.torn.Load(), "recovered_panics": len(panics)})
	done := make(chan struct{})
	go func() { r.Stop(); close(done) }()
	select {
	case <-done:
	case <-time.After(3 * time.Minute):
		c.Count("slow_shutdowns", 1)
	}
}

// panicSig reduces a recovered panic to "message class @ innermost hydraide function".
func panicSig(attrs string) string {
	msg := attrs
	if i := strings.Index(attrs, "error="); i >= 0 {
		msg = attrs[i+6:]
	}
	if i := strings.Index(msg, " stack="); i >= 0 {
		msg = msg[:i]
	}
	msg = strings.TrimSpace(msg)
	if len(msg) > 60 {
		msg = msg[:60]
	}
	fn := "?"
	for _, ln := range strings.Split(attrs, "\n") {
		ln = strings.TrimSpace(ln)
		if strings.HasPrefix(ln, "github.com/hydraide/hydraide/app/") && !strings.Contains(ln, "handlePanic") && !strings.Contains(ln, "panichandler") {
			fn = strings.TrimPrefix(ln, "github.com/hydraide/hydraide/")
			if i := strings.Index(fn, "("); i > 0 && strings.HasSuffix(fn, ")") {
				if j := strings.LastIndex(fn, "("); j > 0 {
					fn = fn[:j]
				}
			}
			break
		}
	}
	msg = strings.Map(func(r rune) rune {
		if r == ' ' || r == ':' {
			return '_'
		}
		if r >= '0' && r <= '9' {
			return 'N'
		}
		return r
	}, msg)
	return msg + "@" + fn
}

func firstLines(s string, n int) string {
	if len(s) > n {
		return s[:n] + "…"
	}
	return s
}

func TestCheck(t *testing.T) {
	c := rig.NewCheck(t, "C10", "exploration")
	defer c.Finish()
	c.Rule = "a case is one child process running one workload mix (3-4 reader goroutines against 3-4 writer goroutines on one swamp, fixed operation count per goroutine) under the race detector; non-trivial = readers received records of the versioned pool; distinct = distinct (mix, repetition, configuration). Race reports are deduplicated to the pair of innermost hydraide functions of the two accesses."
	c.Assumptions = []string{
		"the interleavings are those the Go scheduler produces under the race detector's slowdown on 16 cores; none is forced",
		"race reports are a property of the executions observed; a clean run is not a proof of race freedom",
		"cold index builds are only exercised once per child (the first index read of the swamp)",
	}
	if c.IsChild() {
		var sp spec
		c.ChildSpec(&sp)
		runChild(c, sp)
		return
	}
	reps := c.N(3, 40)
	ops := c.N(20000, 50000)
	var specs []any
	for _, m := range mixes {
		for rep := 0; rep < reps; rep++ {
			specs = append(specs, spec{Mix: m, Rep: rep, Ops: ops / 7, InMem: rep%3 == 2, Write: int64(rep % 2)})
		}
	}
	res := c.Fanout(specs, rig.FanoutOpts{Par: 8, Timeout: c.NDur(8*time.Minute, 20*time.Minute)})
	raceCount := map[string]int{}
	raceText := map[string]string{}
	raceMix := map[string]map[string]bool{}
	for _, r := range res {
		sp := r.Spec.(spec)
		for _, rc := range r.Races {
			raceCount[rc.Sig]++
			if _, ok := raceText[rc.Sig]; !ok {
				raceText[rc.Sig] = rc.Text
			}
			if raceMix[rc.Sig] == nil {
				raceMix[rc.Sig] = map[string]bool{}
			}
			raceMix[rc.Sig][sp.Mix] = true
		}
		switch {
		case r.TimedOut:
			// the SIGQUIT goroutine dump tells a dead-lock from a slow machine: a dead-lock shows request
			// goroutines parked in the engine's own synchronisation
			// a dead-lock is recognised by the child's own stall monitor (no request completes for 40 s);
			// a child that is still making progress when the outer watchdog fires is merely slow
			c.Inconclusive(fmt.Sprintf("%s rep %d: child watchdog fired while requests were still completing (log %s)", sp.Mix, sp.Rep, r.LogPath))
		case len(r.Fatal) > 0:
			c.Violate("fatal:"+fatalSig(r.Fatal[0]), fmt.Sprintf("the server process died under concurrent use (%s rep %d): %s (log %s)", sp.Mix, sp.Rep, r.Fatal[0], r.LogPath), map[string]any{"spec": sp})
		case r.NoPartial:
			c.Inconclusive(fmt.Sprintf("%s rep %d: child produced no result (%v, log %s)", sp.Mix, sp.Rep, r.ExitErr, r.LogPath))
		}
	}
	var sigs []string
	for s := range raceCount {
		sigs = append(sigs, s)
	}
	sort.Strings(sigs)
	dist := map[string]int{}
	for _, s := range sigs {
		dist[s] = raceCount[s]
		var ms []string
		for m := range raceMix[s] {
			ms = append(ms, m)
		}
		sort.Strings(ms)
		c.Violate("race:"+s, fmt.Sprintf("data race reported %d times (mixes %v):\n%s", raceCount[s], ms, firstLines(raceText[s], 3000)), nil)
	}
	c.Extra("race_signatures", dist)
}

// lockCycleClass reduces the places request goroutines are parked in to the kind of cycle: the
// engine's beacons are walked under their lock while record guards are acquired, and writers hold a
// record guard while they update the beacons.
func lockCycleClass(where string) string {
	b := strings.Contains(where, "beacon.(*beacon)")
	g := strings.Contains(where, "guard.(*guard)") || strings.Contains(where, "CreateTreasure")
	switch {
	case b && g:
		return "beacon-lock-vs-record-guard"
	case b:
		return "beacon-lock"
	case g:
		return "record-guard"
	}
	return "other"
}

func fatalSig(s string) string {
	s = strings.TrimPrefix(s, "fatal error: ")
	if len(s) > 80 {
		s = s[:80]
	}
	return strings.ReplaceAll(s, " ", "_")
}
