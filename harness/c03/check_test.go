// C03 — compaction never changes the stored state.
//
// Generated histories bring a storage file over the compaction thresholds and then reach every
// compaction entry point (inline on write, load self-heal, ForceCompaction, and the CLI's
// Compactor.Compact / ForceCompact / CompactIfNeeded / CompactDirectory) with a leftover
// ".hyd.compact" of several kinds lying around. The run is recorded with strace; the state loaded
// after the run — and from every crash image cut inside the compaction — must be exactly the
// state before it.
package c03

import (
	"fmt"
	"os"
	"path/filepath"
	"strings"
	"testing"
	"time"

	v2 "github.com/hydraide/hydraide/app/core/hydra/swamp/chronicler/v2"

	"verifharness/rig"
	"verifharness/stor"
	"verifharness/systrace"
)

func TestStorExec(t *testing.T) {
	if !stor.ExecFromEnv() {
		t.Skip("helper")
	}
}

type spec struct {
	Idx   int              `json:"idx"`
	Entry string           `json:"entry"` // inline load force cli cli-force cli-ifneeded cli-dir
	Temp  string           `json:"temp"`  // none empty garbage valid-stale torn-valid
	Hist  stor.History     `json:"hist"`
	Only  *stor.CrashPoint `json:"only,omitempty"`
}

var entries = []string{"inline", "load", "force", "cli", "cli-force", "cli-ifneeded", "cli-dir"}
var temps = []string{"none", "empty", "garbage", "valid-stale", "torn-valid"}

// staleTemp builds a well-formed V3 file holding keys that must never show up in the swamp.
func staleTemp(name string, torn bool) []byte {
	dir, err := os.MkdirTemp(rig.ScratchBase(), "verif-c03tmp-")
	if err != nil {
		panic(err)
	}
	defer os.RemoveAll(dir)
	// real, decodable treasures written by the real chronicler: if they are ever merged into the swamp
	// they show up as foreign records
	s := stor.Open(filepath.Join(dir, "t"), name)
	var ents []stor.Ent
	for i := 0; i < 40; i++ {
		ents = append(ents, stor.Ent{Key: fmt.Sprintf("zz-foreign-%d", i), Val: "stale-" + strings.Repeat("x", 200)})
	}
	ents = append(ents, stor.Ent{Key: "k0", Val: "STALE"})
	s.Write(ents)
	_ = s.Chron.Close()
	p := filepath.Join(dir, "t.hyd")
	b, _ := os.ReadFile(p)
	_ = v2.DefaultMaxBlockSize
	if torn && len(b) > 200 {
		b = b[:len(b)-137]
	}
	return b
}

func gen(c *rig.Check, idx int, entry, temp string) spec {
	r := c.Rand(idx)
	h := stor.History{Name: fmt.Sprintf("verif/c03/h%d", idx)}
	h.Steps = append(h.Steps, stor.Step{Op: "open"})
	vn := 0
	val := func() string {
		vn++
		if r.IntN(12) == 0 {
			return fmt.Sprintf("big:%d:%d", vn, 800+r.IntN(3000))
		}
		return fmt.Sprintf("v%d", vn)
	}
	plant := func() {
		if temp == "none" {
			return
		}
		var data []byte
		switch temp {
		case "empty":
			data = []byte{}
		case "garbage":
			data = make([]byte, 64+r.IntN(400))
			for i := range data {
				data[i] = byte(r.IntN(256))
			}
		case "valid-stale":
			data = staleTemp(h.Name, false)
		case "torn-valid":
			data = staleTemp(h.Name, true)
		}
		h.Steps = append(h.Steps, stor.Step{Op: "plant", File: ".compact", Data: data})
	}
	var nkeys, total int
	if entry == "inline" {
		// few live keys, many overwrites: total >= 100, total >= 2*live, fragmentation > 0.3 is crossed inside a write
		nkeys = 6 + r.IntN(20)
		total = 130 + r.IntN(80)
	} else {
		// 0.5*total < live < 0.7*total: no inline compaction, but fragmentation > 0.3 for load / force / cli
		total = 110 + r.IntN(60)
		nkeys = total*55/100 + r.IntN(total*10/100)
	}
	issued := 0
	planted := false
	// first give every key a value, then overwrite / delete+rewrite
	// Half of the histories use unusual keys for their first records: the name the engine itself
	// uses for its legacy metadata entry and a neighbour of it, a long key, keys with separator and
	// glob characters. They are ordinary user keys and must survive a compaction like any other.
	odd := []string{"__swamp_meta__", "__swamp_meta__x", "__swamp_meta_", strings.Repeat("K", 300), "a/b/c", "*", "k 1", ".hyd", "k0\tk1"}
	oddKeys := r.IntN(2) == 0
	keyOf := func(i int) string {
		if oddKeys && i < len(odd) {
			return odd[i]
		}
		return fmt.Sprintf("k%d", i)
	}
	next := 0
	for issued < total {
		n := 3 + r.IntN(12)
		if issued+n > total {
			n = total - issued
		}
		if entry == "inline" && !planted && issued > 60 {
			plant()
			planted = true
		}
		used := map[string]bool{}
		var ents []stor.Ent
		for len(ents) < n {
			var k string
			if next < nkeys {
				k = keyOf(next)
				next++
			} else {
				k = keyOf(r.IntN(nkeys))
			}
			if used[k] {
				if len(used) >= nkeys {
					break
				}
				continue
			}
			used[k] = true
			ents = append(ents, stor.Ent{Key: k, Val: val()})
		}
		issued += len(ents)
		h.Steps = append(h.Steps, stor.Step{Op: "write", Ents: ents})
		if r.IntN(3) == 0 {
			h.Steps = append(h.Steps, stor.Step{Op: "sync"})
		}
		if entry != "inline" && r.IntN(9) == 0 && issued < 90 {
			h.Steps = append(h.Steps, stor.Step{Op: "close"}, stor.Step{Op: "open"})
		}
	}
	switch entry {
	case "inline":
	case "load":
		h.Steps = append(h.Steps, stor.Step{Op: "close"})
		plant() // removed by Load's own clean-up before the self-heal compaction
		h.Steps = append(h.Steps, stor.Step{Op: "open"})
	case "force":
		h.Steps = append(h.Steps, stor.Step{Op: "sync"})
		plant()
		h.Steps = append(h.Steps, stor.Step{Op: "compact"})
	default:
		h.Steps = append(h.Steps, stor.Step{Op: "close"})
		plant()
		h.Steps = append(h.Steps, stor.Step{Op: "cli", File: strings.TrimPrefix(strings.TrimPrefix(entry, "cli"), "-")})
	}
	// life goes on after the compaction
	h.Steps = append(h.Steps, stor.Step{Op: "write", Ents: []stor.Ent{{Key: "k0", Val: "after-compaction"}, {Key: "zz-new", Val: "n1"}}}, stor.Step{Op: "sync"}, stor.Step{Op: "close"})
	return spec{Idx: idx, Entry: entry, Temp: temp, Hist: h}
}

var fresh = []stor.Ent{{Key: "zz-after-1", Val: "fresh-1"}, {Key: "k2", Val: "fresh-k2"}, {Key: "k3", Del: true}}

func runCase(c *rig.Check, sp spec) {
	root := rig.TempRoot("c03")
	defer rig.RemoveAll(root)
	h := sp.Hist
	tr, err := stor.Trace(&h, root, nil, nil, false)
	caseKey := fmt.Sprintf("h%d/%s/%s", sp.Idx, sp.Entry, sp.Temp)
	if err != nil {
		c.Case(caseKey, false)
		c.Inconclusive("trace failed: " + err.Error())
		return
	}
	if tr.Res.Panic != "" {
		c.Case(caseKey, true)
		c.Violate("exec-panic:"+sp.Entry+":"+sp.Temp, "executor panicked: "+tr.Res.Panic, map[string]any{"spec": sp})
		return
	}
	lg := tr.Log
	main := stor.HydFile(stor.SwampPath(root))
	tempPath := main + ".compact"
	if d := lg.CompareWithDisk(filepath.Join(root, "d"), nil); d != "" {
		c.Case(caseKey, false)
		c.Inconclusive("recorder self-check failed: " + d)
		return
	}
	c.Count("recorder_selfchecks_ok", 1)
	// where did compactions happen? (rename temp -> main)
	var renames []int
	for i, op := range lg.Ops {
		if op.Kind == systrace.Rename && op.Path == tempPath && op.Path2 == main {
			renames = append(renames, i)
		}
	}
	c.Count("compaction_renames_recorded", int64(len(renames)))
	c.Seen("entry_x_temp_compacted", fmt.Sprintf("%s/%s/%d", sp.Entry, sp.Temp, min(len(renames), 1)))
	// step errors of compaction steps are allowed (a compaction may refuse to run); data loss is not
	ents := h.Entries()
	full := stor.Apply(map[string]string{}, ents)

	// (A) final state
	st, lerr := stor.Load(stor.SwampPath(root), h.Name)
	c.Case(caseKey, len(renames) > 0)
	if lerr != nil {
		c.Violate("final:load-panic:"+sp.Entry+":"+sp.Temp, lerr.Error(), map[string]any{"spec": sp})
	} else if !stor.Equal(st, full) {
		c.Violate(fmt.Sprintf("final:%s:%s:%s", diffClass(st, full), sp.Entry, sp.Temp),
			fmt.Sprintf("after the history (compaction via %s, leftover temp %s) the swamp loads %d records, expected %d: %s", sp.Entry, sp.Temp, len(st), len(full), diffText(st, full)),
			map[string]any{"spec": sp, "step_errors": tr.Res.Steps})
	}
	if lo := stor.Leftovers(stor.SwampPath(root)); len(lo) > 0 {
		c.Violate("final:leftover-temp-after-load:"+sp.Entry+":"+sp.Temp, fmt.Sprintf("files left next to the storage file after a load: %v", lo), map[string]any{"spec": sp})
	}
	rig.InstallSentinel().Drain()

	// (B) crash images inside each compaction window: from the first touch of the temp path in the
	// step that contains the rename up to the step's end marker. Everything issued before is durable
	// (every entry point closes / fsyncs the writer first), so the only acceptable state is the full
	// state as of that step.
	lay := stor.Analyze(lg, main, &h) // only for step boundaries and roles
	through := make([]int, len(h.Steps))
	n := 0
	for i, s := range h.Steps {
		if s.Op == "write" {
			n += len(s.Ents)
		}
		through[i] = n
	}
	imgDir := filepath.Join(root, "img")
	seen := map[uint64]bool{}
	for _, rn := range renames {
		step := lay.StepOfOp[rn]
		if step < 0 {
			continue
		}
		// the writer of the main file is closed (fsynced) before the compaction starts; find that sync
		syncBefore := -1
		for i := rn; i >= 0; i-- {
			if lg.Ops[i].Kind == systrace.Sync && lg.Ops[i].Path == main {
				syncBefore = i
				break
			}
		}
		first := rn
		for i := rn; i > syncBefore && i >= 0 && lay.StepOfOp[i] == step; i-- {
			if lg.Ops[i].Path == tempPath && (lg.Ops[i].Kind == systrace.Create || lg.Ops[i].Kind == systrace.Trunc || lg.Ops[i].Kind == systrace.Write || lg.Ops[i].Kind == systrace.Unlink) {
				first = i
			}
		}
		end := lay.StepEnd[step]
		if end == 0 {
			end = len(lg.Ops)
		}
		want := stor.Apply(map[string]string{}, ents[:through[step]])
		var cps []stor.CrashPoint
		rr := c.Rand(5_000_000 + sp.Idx)
		for p := first; p <= end && p <= len(lg.Ops); p++ {
			if p < len(lg.Ops) && (lg.Ops[p].Kind == systrace.Mark || lg.Ops[p].Kind == systrace.Fail) {
				continue
			}
			cps = append(cps, stor.CrashPoint{Family: "death", Op: p, Torn: -1})
			if p < len(lg.Ops) && lg.Ops[p].Kind == systrace.Write && len(lg.Ops[p].Data) > 1 {
				nb := len(lg.Ops[p].Data)
				cps = append(cps, stor.CrashPoint{Family: "death", Op: p, Torn: 1 + rr.IntN(nb-1)})
				if !c.Quick() {
					cps = append(cps, stor.CrashPoint{Family: "death", Op: p, Torn: 1}, stor.CrashPoint{Family: "death", Op: p, Torn: nb - 1})
				}
			}
			cps = append(cps, stor.CrashPoint{Family: "power", Op: p, Keep: 0, Torn: -1},
				stor.CrashPoint{Family: "power", Op: p, Keep: -1, Torn: 1 + rr.IntN(40)},
				stor.CrashPoint{Family: "power", Op: p, Keep: -2, Torn: -1, Salt: rr.Uint64()})
		}
		if sp.Only != nil {
			cps = []stor.CrashPoint{*sp.Only}
		}
		for _, cp := range cps {
			if syncBefore < 0 && cp.Family == "power" {
				continue // the old file was never fsynced in this trace: nothing is durable yet
			}
			img := cp.Image(lg)
			hh := stor.ImageHash(img)
			if seen[hh] {
				c.Count("images_deduplicated", 1)
				continue
			}
			seen[hh] = true
			path, err := stor.Materialise(img, root, imgDir)
			if err != nil {
				c.Inconclusive("materialise: " + err.Error())
				continue
			}
			role := stor.Role(lg, lay, cp.Op, main)
			c.Case(fmt.Sprintf("%s/%s/%d/%d/%d/%d", caseKey, cp.Family, cp.Op, cp.Torn, cp.Keep, cp.Salt), true)
			c.Count("crash_images_in_compaction", 1)
			c.Seen("inflight_roles", cp.Family+":"+role)
			got, lerr := stor.Load(path, h.Name)
			var class, detail string
			switch {
			case lerr != nil:
				class, detail = "load-panic", lerr.Error()
			case !stor.Equal(got, want):
				class, detail = diffClass(got, want), fmt.Sprintf("crash (%s) at op %d (%s) inside a compaction via %s with leftover temp %s: loaded %d records, the state before the compaction had %d: %s", cp.Family, cp.Op, role, sp.Entry, sp.Temp, len(got), len(want), diffText(got, want))
			default:
				if lo := stor.Leftovers(path); len(lo) > 0 {
					class, detail = "leftover-temp-after-load", fmt.Sprintf("%v", lo)
				} else {
					// recovery must be writable
					ex := stor.Expectation{MainPresent: true, BaseUpTo: through[step], Boundaries: []int{0}}
					v := stor.Judge(path, h.Name, &h, ex, fresh)
					class, detail = v.Class, v.Detail
				}
			}
			if class != "" {
				cpc := cp
				spc := sp
				spc.Only = &cpc
				c.Violate(fmt.Sprintf("crash-in-compaction:%s:%s:%s:%s:%s", class, cp.Family, role, sp.Entry, sp.Temp), detail, map[string]any{"spec": spc})
			}
			rig.InstallSentinel().Drain()
		}
	}
	c.Sample(map[string]any{"entry": sp.Entry, "temp": sp.Temp, "steps": len(h.Steps), "entries": len(ents), "live": len(full), "trace_ops": len(lg.Ops), "compactions": len(renames)})
}

func diffClass(got, want map[string]string) string {
	missing, extra, wrong := 0, 0, 0
	for k, v := range want {
		if g, ok := got[k]; !ok {
			missing++
		} else if g != v {
			wrong++
		}
	}
	for k := range got {
		if _, ok := want[k]; !ok {
			extra++
		}
	}
	var parts []string
	if missing > 0 {
		parts = append(parts, "records-lost")
	}
	if wrong > 0 {
		parts = append(parts, "stale-values")
	}
	if extra > 0 {
		parts = append(parts, "foreign-records")
	}
	if len(parts) == 0 {
		return "equal"
	}
	return strings.Join(parts, "+")
}

func diffText(got, want map[string]string) string {
	var sb strings.Builder
	n := 0
	short := func(s string) string {
		if len(s) > 16 {
			return s[:16] + "…"
		}
		return s
	}
	for k, v := range want {
		if g, ok := got[k]; !ok {
			if n < 6 {
				fmt.Fprintf(&sb, "missing %s; ", k)
			}
			n++
		} else if g != v {
			if n < 6 {
				fmt.Fprintf(&sb, "%s=%q want %q; ", k, short(g), short(v))
			}
			n++
		}
	}
	for k := range got {
		if _, ok := want[k]; !ok {
			if n < 6 {
				fmt.Fprintf(&sb, "unexpected %s; ", k)
			}
			n++
		}
	}
	return fmt.Sprintf("%d differences: %s", n, sb.String())
}

func TestCheck(t *testing.T) {
	c := rig.NewCheck(t, "C03", "fault_enumeration")
	defer c.Finish()
	c.Rule = "a case is (a) one generated history that crosses the compaction thresholds and reaches one compaction entry point with one kind of leftover .hyd.compact file, judged on its final loaded state, or (b) one crash image (process death / power loss) cut inside the compaction of such a history, judged against the state before the compaction; non-trivial = a compaction rename was actually recorded; distinct = distinct (history, entry point, temp kind, crash point)"
	c.Assumptions = []string{
		"power-loss model as in C02 (journalled namespace operations, per-file fsync barrier, in-order prefix of later writes)",
		"every compaction entry point is reached with all earlier writes flushed and fsynced (the engine closes its writer first), so the only acceptable state during and after a compaction is the complete state before it",
		"the close-time trigger shares its condition with the write-time trigger and is not forced separately",
	}
	if c.IsChild() {
		var sp spec
		c.ChildSpec(&sp)
		runCase(c, sp)
		return
	}
	var specs []any
	if p := c.ReplayPath(); p != "" {
		var w struct {
			Witness struct{ Spec spec } `json:"witness"`
		}
		rig.ReadJSON(p, &w)
		specs = append(specs, w.Witness.Spec)
	} else {
		rounds := c.N(2, 12)
		idx := 0
		for round := 0; round < rounds; round++ {
			for _, e := range entries {
				for _, tp := range temps {
					specs = append(specs, gen(c, idx, e, tp))
					idx++
				}
			}
		}
	}
	res := c.Fanout(specs, rig.FanoutOpts{Par: 16, Timeout: 20 * time.Minute})
	for _, r := range res {
		sp := r.Spec.(spec)
		switch {
		case r.TimedOut:
			c.Inconclusive(fmt.Sprintf("case %d: child watchdog fired (log %s)", sp.Idx, r.LogPath))
		case len(r.Fatal) > 0:
			c.Violate("process-died:"+sp.Entry+":"+sp.Temp, fmt.Sprintf("process died: %s (log %s)", r.Fatal[0], r.LogPath), map[string]any{"spec": sp})
		case r.NoPartial:
			c.Inconclusive(fmt.Sprintf("case %d: child produced no result (%v, log %s)", sp.Idx, r.ExitErr, r.LogPath))
		}
	}
}
