// C25 — disk write failures never corrupt durable data.
//
// Generated histories are executed against the real V2 chronicler in a child process under strace;
// one run per fault point. Faults come from strace's syscall injection (write / fsync / rename /
// lseek / openat failing with ENOSPC or EIO at the N-th call on the storage files) and from
// RLIMIT_FSIZE windows (real short writes). After the fault the history continues, the swamp is
// closed and the files left on disk are loaded by the real loader. Everything that was covered by a
// successful Sync/Close outside the faulty window must be there; nothing that was never written
// may be there; writes inside the faulty window may be present or absent.
package c25

import (
	"fmt"
	"path/filepath"
	"sort"
	"strings"
	"testing"
	"time"

	"verifharness/rig"
	"verifharness/stor"
	"verifharness/systrace"
)

func TestStorExec(t *testing.T) {
	if !stor.ExecFromEnv() {
		t.Skip("helper")
	}
}

type fault struct {
	Kind  string `json:"kind"` // inject | rlimit
	Call  string `json:"call,omitempty"`
	Errno string `json:"errno,omitempty"`
	N     int    `json:"n,omitempty"`
	N2    int    `json:"n2,omitempty"` // second fault of a double fault (same call kind)
	// rlimit: limit set before step From (index into the normalised history), cleared after step To
	From  int   `json:"from,omitempty"`
	To    int   `json:"to,omitempty"`
	Limit int64 `json:"limit,omitempty"`
}

type spec struct {
	Idx  int          `json:"idx"`
	Hist stor.History `json:"hist"`
	Only *fault       `json:"only,omitempty"`
}

func genHistory(c *rig.Check, idx int) stor.History {
	r := c.Rand(idx)
	h := stor.History{Name: fmt.Sprintf("verif/c25/h%d", idx)}
	nkeys := 3 + r.IntN(8)
	shape := r.IntN(3) // 0 small values, crosses compaction threshold; 1 big values (several blocks per batch); 2 mixed
	nsteps := 8 + r.IntN(12)
	if shape == 0 {
		nsteps = 26 + r.IntN(14)
	}
	live := map[string]bool{}
	h.Steps = append(h.Steps, stor.Step{Op: "open"})
	vn := 0
	for s := 0; s < nsteps; s++ {
		x := r.IntN(100)
		switch {
		case x < 60:
			n := 1 + r.IntN(5)
			if shape == 0 {
				n = 2 + r.IntN(nkeys)
			}
			used := map[string]bool{}
			var ents []stor.Ent
			for len(ents) < n && len(used) < nkeys {
				k := fmt.Sprintf("k%d", r.IntN(nkeys))
				if used[k] {
					continue
				}
				used[k] = true
				if live[k] && r.IntN(100) < 20 {
					ents = append(ents, stor.Ent{Key: k, Del: true})
					delete(live, k)
					continue
				}
				vn++
				v := fmt.Sprintf("v%d", vn)
				if shape == 1 || (shape == 2 && r.IntN(3) == 0) {
					v = fmt.Sprintf("big:%d:%d", vn, 1500+r.IntN(9000))
				}
				ents = append(ents, stor.Ent{Key: k, Val: v})
				live[k] = true
			}
			h.Steps = append(h.Steps, stor.Step{Op: "write", Ents: ents})
		case x < 84:
			h.Steps = append(h.Steps, stor.Step{Op: "sync"})
		default:
			h.Steps = append(h.Steps, stor.Step{Op: "close"}, stor.Step{Op: "open"})
		}
	}
	// the fault has cleared by now at the latest: fresh writes, barrier, clean shutdown
	vn++
	h.Steps = append(h.Steps,
		stor.Step{Op: "write", Ents: []stor.Ent{{Key: "k0", Val: fmt.Sprintf("tail-%d", vn)}, {Key: "zz-tail", Val: "t1"}}},
		stor.Step{Op: "sync"},
		stor.Step{Op: "write", Ents: []stor.Ent{{Key: "zz-tail2", Val: "t2"}}},
		stor.Step{Op: "close"})
	h.Normalize()
	return h
}

func pArgs(root string) []string {
	main := stor.HydFile(stor.SwampPath(root))
	return []string{"-P", main, "-P", main + ".compact", "-P", stor.MarkPath(root)}
}

// enumerate the fault points of one history from its fault-free trace
func faultPoints(c *rig.Check, idx int, h *stor.History, lg *systrace.Log, lay *stor.Layout, main string) []fault {
	var all []fault
	// ordinal of each storage write among the traced write calls (markers count as writes too)
	wOrd := 0
	var storageWrites []int
	syncs, renames := 0, 0
	for _, op := range lg.Ops {
		switch op.Kind {
		case systrace.Write:
			wOrd++
			storageWrites = append(storageWrites, wOrd)
		case systrace.Mark:
			wOrd++
		case systrace.Sync:
			syncs++
		case systrace.Rename:
			renames++
		}
	}
	for _, e := range []string{"ENOSPC", "EIO"} {
		for _, n := range storageWrites {
			all = append(all, fault{Kind: "inject", Call: "write", Errno: e, N: n})
		}
		for n := 1; n <= syncs; n++ {
			all = append(all, fault{Kind: "inject", Call: "fsync", Errno: e, N: n})
		}
		for n := 1; n <= renames; n++ {
			all = append(all, fault{Kind: "inject", Call: "renameat", Errno: e, N: n})
		}
	}
	r := c.Rand(9_000_000 + idx)
	// double faults on writes
	for i := 0; i < len(storageWrites)/2; i++ {
		a := storageWrites[r.IntN(len(storageWrites))]
		b := storageWrites[r.IntN(len(storageWrites))]
		if a > b {
			a, b = b, a
		}
		if a != b {
			all = append(all, fault{Kind: "inject", Call: "write", Errno: "ENOSPC", N: a, N2: b})
		}
	}
	// RLIMIT_FSIZE windows: the limit cuts the file at (size when step From begins) + delta
	size := int64(0)
	sizeAtStep := map[int]int64{}
	for i, op := range lg.Ops {
		if op.Kind == systrace.Write && op.Path == main {
			if e := op.Off + int64(len(op.Data)); e > size {
				size = e
			}
		}
		if op.Kind == systrace.Rename && op.Path2 == main {
			size = 0
			for j := 0; j < i; j++ {
				if lg.Ops[j].Kind == systrace.Write && lg.Ops[j].Inode == inodeOf(lg, i, main) {
					if e := lg.Ops[j].Off + int64(len(lg.Ops[j].Data)); e > size {
						size = e
					}
				}
			}
		}
		if op.Kind == systrace.Mark && strings.HasPrefix(op.Path, "B ") {
			var st int
			fmt.Sscanf(op.Path, "B %d", &st)
			sizeAtStep[st] = size
		}
	}
	for st := range h.Steps {
		if h.Steps[st].Op != "write" && h.Steps[st].Op != "sync" && h.Steps[st].Op != "close" {
			continue
		}
		base := sizeAtStep[st]
		for _, d := range []int64{0, 1, 7, 16, 17, 40, 200, 3000, 16400} {
			to := st
			if r.IntN(3) == 0 && st+2 < len(h.Steps)-4 {
				to = st + 1 + r.IntN(2)
			}
			if to >= len(h.Steps)-4 {
				to = len(h.Steps) - 5
			}
			if to < st {
				continue
			}
			all = append(all, fault{Kind: "rlimit", From: st, To: to, Limit: base + d})
		}
	}
	n := c.N(48, 100000)
	if len(all) <= n {
		return all
	}
	// deterministic sample that keeps every call kind represented
	r.Shuffle(len(all), func(i, j int) { all[i], all[j] = all[j], all[i] })
	return all[:n]
}

func inodeOf(lg *systrace.Log, p int, path string) int {
	if ino, ok := lg.NamesAt(p + 1)[path]; ok {
		return ino
	}
	return -1
}

func withLimit(h stor.History, f fault) stor.History {
	out := stor.History{Name: h.Name}
	for i, s := range h.Steps {
		if i == f.From {
			out.Steps = append(out.Steps, stor.Step{Op: "limit", N: f.Limit})
		}
		out.Steps = append(out.Steps, s)
		if i == f.To {
			out.Steps = append(out.Steps, stor.Step{Op: "unlimit"})
		}
	}
	return out
}

func runHistory(c *rig.Check, sp spec) {
	h := sp.Hist
	h.Normalize()
	root0 := rig.TempRoot("c25")
	defer rig.RemoveAll(root0)
	tr0, err := stor.Trace(&h, root0, nil, pArgs(root0), true)
	if err != nil || tr0.Res.Panic != "" {
		c.Case(fmt.Sprintf("h%d-ref", sp.Idx), false)
		c.Inconclusive(fmt.Sprintf("fault-free reference run failed: %v %v", err, tr0 != nil && tr0.Res != nil && tr0.Res.Panic != ""))
		return
	}
	main0 := stor.HydFile(stor.SwampPath(root0))
	lay0 := stor.Analyze(tr0.Log, main0, &h)
	// the fault-free run itself must end in the full state
	full := stor.Apply(map[string]string{}, h.Entries())
	if st, lerr := stor.Load(stor.SwampPath(root0), h.Name); lerr != nil || !stor.Equal(st, full) {
		c.Case(fmt.Sprintf("h%d-ref", sp.Idx), false)
		c.Inconclusive(fmt.Sprintf("fault-free run does not load to the reference state (%v)", lerr))
		return
	}
	faults := faultPoints(c, sp.Idx, &h, tr0.Log, lay0, main0)
	if sp.Only != nil {
		faults = []fault{*sp.Only}
	}
	for fi, f := range faults {
		runFault(c, sp, &h, f, fi)
	}
	c.Sample(map[string]any{"steps": len(h.Steps), "entries": len(h.Entries()), "fault_points": len(faults), "first_fault": faults[0]})
}

func runFault(c *rig.Check, sp spec, h0 *stor.History, f fault, fi int) {
	root := rig.TempRoot("c25f")
	defer rig.RemoveAll(root)
	h := *h0
	var extra []string
	switch f.Kind {
	case "inject":
		extra = append(extra, "-e", fmt.Sprintf("inject=%s:error=%s:when=%d", f.Call, f.Errno, f.N))
		if f.N2 > 0 {
			// strace keeps one injection rule per syscall; a second fault of the same call uses the +step form
			extra[len(extra)-1] = fmt.Sprintf("inject=%s:error=%s:when=%d..%d+%d", f.Call, f.Errno, f.N, f.N2, f.N2-f.N)
		}
	case "rlimit":
		h = withLimit(*h0, f)
	}
	extra = append(extra, pArgs(root)...)
	key := fmt.Sprintf("h%d/%s/%s/%s/%d/%d/%d/%d/%d", sp.Idx, f.Kind, f.Call, f.Errno, f.N, f.N2, f.From, f.To, f.Limit)
	tr, err := stor.Trace(&h, root, nil, extra, true)
	if err != nil {
		c.Case(key, false)
		c.Inconclusive("faulted run failed to execute: " + err.Error())
		return
	}
	if tr.Res.Panic != "" {
		c.Case(key, true)
		c.Violate(fmt.Sprintf("panic-under-fault:%s:%s", f.Kind, f.Call), "the engine panicked under an I/O fault: "+tr.Res.Panic, map[string]any{"spec": withOnly(sp, f)})
		return
	}
	lg := tr.Log
	main := stor.HydFile(stor.SwampPath(root))
	lay := stor.Analyze(lg, main, &h)
	// faulty steps: any step in which a tracked call failed or was cut short, plus the rlimit window
	faulty := map[int]bool{}
	hit := false
	role := "none"
	for i, op := range lg.Ops {
		if op.Kind == systrace.Fail || (op.Kind == systrace.Write && op.Short) {
			st := lay.StepOfOp[i]
			faulty[st] = true
			if !hit {
				hit = true
				if op.Kind == systrace.Fail {
					role = op.Path + "@" + failTarget(lg, lay, i, main)
				} else {
					role = "short-" + stor.Role(lg, lay, i, main)
				}
			}
		}
	}
	stepOf := func(orig int) int { return orig }
	if f.Kind == "rlimit" {
		// steps of h are shifted by the inserted limit/unlimit steps
		for i, s := range h.Steps {
			if s.Op == "limit" {
				for j := i; j < len(h.Steps); j++ {
					faulty[j] = true
					if h.Steps[j].Op == "unlimit" {
						break
					}
				}
			}
		}
	}
	_ = stepOf
	c.Case(key, hit)
	if !hit {
		c.Count("fault_points_not_reached", 1)
		return
	}
	c.Count("faulted_runs", 1)
	c.Seen("fault_roles", f.Kind+":"+role)
	reported := false
	for i, sr := range tr.Res.Steps {
		if faulty[i] && (sr.Err != "" || len(sr.Logs) > 0) {
			reported = true
		}
	}
	if reported {
		c.Count("faults_reported_to_caller_or_log", 1)
	} else {
		c.Count("faults_silent", 1)
	}
	// classify entries
	type ent struct {
		e       stor.Ent
		step    int
		certain bool
	}
	var ents []ent
	for i, s := range h.Steps {
		if s.Op == "write" {
			for _, e := range s.Ents {
				ents = append(ents, ent{e: e, step: i})
			}
		}
	}
	okBarrier := func(i int) bool {
		s := h.Steps[i]
		return (s.Op == "sync" || s.Op == "close") && !faulty[i] && tr.Res.Steps[i].Err == "" && len(tr.Res.Steps[i].Logs) == 0
	}
	for k := range ents {
		for b := ents[k].step + 1; b < len(h.Steps); b++ {
			if faulty[b] {
				break
			}
			if okBarrier(b) {
				ents[k].certain = !faulty[ents[k].step]
				break
			}
		}
	}
	got, lerr := stor.Load(stor.SwampPath(root), h.Name)
	logs := rig.InstallSentinel().Drain()
	if lerr != nil {
		c.Violate(fmt.Sprintf("load-panic-after-fault:%s:%s", f.Kind, role), lerr.Error(), map[string]any{"spec": withOnly(sp, f)})
		return
	}
	// acceptable values per key
	type acc struct {
		vals   map[string]bool
		absent bool
		must   string // description of the last certain entry
	}
	keys := map[string]*acc{}
	for _, en := range ents {
		a := keys[en.e.Key]
		if a == nil {
			a = &acc{vals: map[string]bool{}, absent: true}
			keys[en.e.Key] = a
		}
		if en.certain {
			a.vals = map[string]bool{}
			a.absent = en.e.Del
			if !en.e.Del {
				a.vals[stor.Expand(en.e.Val)] = true
			}
			a.must = fmt.Sprintf("step %d", en.step)
		} else {
			if en.e.Del {
				a.absent = true
			} else {
				a.vals[stor.Expand(en.e.Val)] = true
			}
		}
	}
	var bad []string
	class := ""
	for k, a := range keys {
		g, ok := got[k]
		switch {
		case !ok && !a.absent:
			bad = append(bad, fmt.Sprintf("%s missing (last covered write: %s)", k, a.must))
			if stepAfterFault(a.must, faulty) {
				class = pick(class, "post-fault-durable-write-lost")
			} else {
				class = pick(class, "pre-fault-durable-data-lost")
			}
		case ok && !a.vals[g]:
			bad = append(bad, fmt.Sprintf("%s=%q is not an acceptable value (last covered write: %s)", k, short(g), a.must))
			if stepAfterFault(a.must, faulty) {
				class = pick(class, "post-fault-durable-write-lost")
			} else {
				class = pick(class, "pre-fault-durable-data-lost")
			}
		}
	}
	for k := range got {
		if _, ok := keys[k]; !ok {
			bad = append(bad, "never written key "+k)
			class = pick(class, "phantom-record")
		}
	}
	if len(bad) > 0 {
		sort.Strings(bad)
		if len(bad) > 8 {
			bad = append(bad[:8], fmt.Sprintf("… %d more", len(bad)-8))
		}
		var lm []string
		for i, l := range logs {
			if i < 4 {
				lm = append(lm, l.Msg+" "+l.Attrs)
			}
		}
		c.Violate(fmt.Sprintf("fault:%s:%s:%s", class, f.Kind, role),
			fmt.Sprintf("after a %s fault (%s) and a continued history, the reloaded swamp has %d records: %s", f.Kind, role, len(got), strings.Join(bad, "; ")),
			map[string]any{"spec": withOnly(sp, f), "faulty_steps": keysOf(faulty), "loader_logs": lm, "step_results": tr.Res.Steps})
	}
	if lo := stor.Leftovers(stor.SwampPath(root)); len(lo) > 0 {
		c.Count("leftover_files_after_fault", int64(len(lo)))
	}
}

func pick(cur, n string) string {
	order := map[string]int{"": 0, "phantom-record": 1, "post-fault-durable-write-lost": 2, "pre-fault-durable-data-lost": 3}
	if order[n] > order[cur] {
		return n
	}
	return cur
}

func stepAfterFault(must string, faulty map[int]bool) bool {
	var st int
	if _, err := fmt.Sscanf(must, "step %d", &st); err != nil {
		return false
	}
	for f := range faulty {
		if f < st {
			return true
		}
	}
	return false
}

func failTarget(lg *systrace.Log, lay *stor.Layout, i int, main string) string {
	op := lg.Ops[i]
	t := "main"
	if strings.Contains(op.Path2, ".compact") {
		t = "temp"
	}
	return t
}

func short(s string) string {
	if len(s) > 20 {
		return s[:20] + "…"
	}
	return s
}

func keysOf(m map[int]bool) []int {
	var out []int
	for k := range m {
		out = append(out, k)
	}
	sort.Ints(out)
	return out
}

func withOnly(sp spec, f fault) spec {
	ff := f
	sp.Only = &ff
	return sp
}

func TestCheck(t *testing.T) {
	c := rig.NewCheck(t, "C25", "fault_enumeration")
	defer c.Finish()
	c.Rule = "a case is one (generated history, fault point) pair executed for real: strace injection of ENOSPC/EIO into the N-th write / fsync / rename / lseek / openat on the storage files (plus sampled double write faults), or an RLIMIT_FSIZE window giving real short writes at a chosen file offset; non-trivial = the fault actually hit a storage-file call (seen in the trace); distinct = distinct (history, fault point)"
	c.Assumptions = []string{
		"a record counts as durably acknowledged when a Sync/Close returned nil (and logged nothing) after its write with no faulty step in between; records written or flushed inside a faulty window may be present or absent",
		"the chronicler's Write has no error return: failures there are only logged; the evidence counts how many injected faults were visible to the caller (step error or log) at all",
		"faults are injected on the .hyd file and its .compact temp file only; directory operations and reads are not faulted",
		_asm,
	}
	if c.IsChild() {
		var sp spec
		c.ChildSpec(&sp)
		runHistory(c, sp)
		return
	}
	var specs []any
	if p := c.ReplayPath(); p != "" {
		var w struct {
			Witness struct{ Spec spec } `json:"witness"`
		}
		rig.ReadJSON(p, &w)
		specs = append(specs, w.Witness.Spec)
	} else {
		n := c.N(16, 120)
		for i := 0; i < n; i++ {
			specs = append(specs, spec{Idx: i, Hist: genHistory(c, i)})
		}
	}
	res := c.Fanout(specs, rig.FanoutOpts{Par: 16, Timeout: 40 * time.Minute})
	for _, r := range res {
		sp := r.Spec.(spec)
		switch {
		case r.TimedOut:
			c.Inconclusive(fmt.Sprintf("history %d: child watchdog fired (log %s)", sp.Idx, r.LogPath))
		case len(r.Fatal) > 0:
			c.Violate("process-died:"+r.Fatal[0], fmt.Sprintf("process died: %s (log %s)", r.Fatal[0], r.LogPath), map[string]any{"spec": sp})
		case r.NoPartial:
			c.Inconclusive(fmt.Sprintf("history %d: child produced no result (%v, log %s)", sp.Idx, r.ExitErr, r.LogPath))
		}
	}
	_ = filepath.Join
}

const _asm = "strace's when=N counts calls per thread; the executor issues all storage calls from one locked OS thread with GOMAXPROCS=1"
