package c19

import (
	"encoding/hex"
	"fmt"
	"sort"
	"strconv"
	"strings"

	hydrapb "github.com/hydraide/hydraide/sdk/go/hydraidego/v3/hydraidepbgo"
	"google.golang.org/protobuf/encoding/prototext"
	"google.golang.org/protobuf/types/known/timestamppb"
)

// mval is the value of a present key: canonical value text + expiry (unix ns, 0 = none).
type mval struct {
	Val string `json:"val"`
	Exp int64  `json:"exp,omitempty"`
	UAt int64  `json:"uat,omitempty"` // UpdatedAt the record carries (unix ns, 0 = none)
	CAt int64  `json:"cat,omitempty"` // CreatedAt
}

type kv struct {
	Key string `json:"key"`
	Val string `json:"val"`
}

// exec is one executed request with what the server answered.
type exec struct {
	Round, Lane, Idx int
	Op               op
	Val              string   // value the key holds if this request changes it
	Exp              int64    // ExpiredAt sent with the request (unix ns), 0 none
	ChkUAt, ChkCAt   bool     // the UpdatedAt / CreatedAt the event's treasure must carry is known …
	WantUAt, WantCAt int64    // … and is this (0 = none)
	Silent           bool     // by construction a save that changes nothing (or a read)
	Status           string   // status the server reported for the key
	Changed          bool     // the response says the key was created/updated
	Deleted          []string // keys reported DELETED by Delete
	Shifted          []kv     // treasures returned by a Shift
	Err              string
	T0, T1           int64 // clock before / after the call
	Dev              string
}

func (e *exec) label() string {
	return fmt.Sprintf("r%d.l%d.%d:%s", e.Round, e.Lane, e.Idx, e.Op.K)
}

func valOf(t *hydrapb.Treasure) string {
	if t == nil {
		return ""
	}
	switch {
	case t.StringVal != nil:
		return "S:" + *t.StringVal
	case t.Int64Val != nil:
		return "I:" + strconv.FormatInt(*t.Int64Val, 10)
	case t.BytesVal != nil:
		return "B:" + hex.EncodeToString(t.BytesVal)
	}
	if t.Int8Val != nil || t.Int16Val != nil || t.Int32Val != nil || t.Uint8Val != nil || t.Uint16Val != nil || t.Uint32Val != nil ||
		t.Uint64Val != nil || t.Float32Val != nil || t.Float64Val != nil || t.BoolVal != nil || len(t.Uint32Slice) > 0 {
		c := &hydrapb.Treasure{Int8Val: t.Int8Val, Int16Val: t.Int16Val, Int32Val: t.Int32Val, Uint8Val: t.Uint8Val, Uint16Val: t.Uint16Val,
			Uint32Val: t.Uint32Val, Uint64Val: t.Uint64Val, Float32Val: t.Float32Val, Float64Val: t.Float64Val, BoolVal: t.BoolVal, Uint32Slice: t.Uint32Slice}
		return "X:" + prototext.MarshalOptions{Multiline: false}.Format(c)
	}
	return ""
}

func emptyTreasure(t *hydrapb.Treasure) bool {
	return t == nil || (t.Key == "" && valOf(t) == "" && !t.IsExist)
}

func tsNanos(ts *timestamppb.Timestamp) int64 {
	if ts == nil {
		return 0
	}
	return ts.Seconds*1e9 + int64(ts.Nanos)
}

// timeVerdict classifies an event time against the interval of the call that made the change.
func timeVerdict(ts *timestamppb.Timestamp, t0, t1, tol int64) string {
	if ts == nil {
		return "missing"
	}
	if ts.Nanos < 0 || ts.Nanos >= 1e9 {
		return "invalid-nanos"
	}
	if ts.Seconds >= t0-tol && ts.Seconds <= t1+tol && ts.Seconds > 1e15 {
		return "nanoseconds-in-seconds-field"
	}
	if ts.Seconds > 1e11 || ts.Seconds < -1e11 {
		return "out-of-range"
	}
	n := tsNanos(ts)
	switch {
	case n >= t0-tol && n <= t1+tol:
		return ""
	case n < t0-tol && n > t0-tol-1e9 && n%1e6 == 0:
		return "truncated"
	case n < t0-tol:
		return "before-the-call"
	}
	return "after-the-call"
}

type capEntry struct {
	ex      *exec
	key     string
	del     bool
	val     string // "" = unknown (Delete does not return the value)
	want    string // NEW / UPDATED / "" (not told by the response)
	silent  bool
	matched int
}

type finding struct {
	Sig     string `json:"sig"`
	What    string `json:"what"`
	Round   int    `json:"round"`
	Sub     int    `json:"sub"`
	Details any    `json:"details,omitempty"`
}

type evView struct {
	Seq     int    `json:"seq"`
	Status  string `json:"status"`
	Key     string `json:"key"`
	New     string `json:"new,omitempty"`
	Old     string `json:"old,omitempty"`
	Deleted string `json:"deleted,omitempty"`
	Time    string `json:"time"`
	Gid     int64  `json:"gid"`
	Overlap bool   `json:"overlap,omitempty"`
	Op      string `json:"op,omitempty"`
}

func viewOf(r rec) evView {
	m := r.Msg
	v := evView{Seq: r.Seq, Gid: r.Gid, Overlap: r.Overlap}
	if m == nil {
		v.Status = "<nil message>"
		return v
	}
	v.Status = m.GetStatus().String()
	v.New, v.Old, v.Deleted = valOf(m.GetTreasure()), valOf(m.GetOldTreasure()), valOf(m.GetDeletedTreasure())
	v.Key = evKey(m)
	if m.EventTime != nil {
		v.Time = fmt.Sprintf("%d.%09d", m.EventTime.Seconds, m.EventTime.Nanos)
	}
	return v
}

func evKey(m *hydrapb.SubscribeToEventsResponse) string {
	switch m.GetStatus() {
	case hydrapb.Status_DELETED:
		return m.GetDeletedTreasure().GetKey()
	default:
		return m.GetTreasure().GetKey()
	}
}

type roundCheck struct {
	swamp    string
	round    int
	sub      int
	required bool // the whole round lies strictly inside the subscription window
	conc     bool // more than one writer in the round
	subTag   string
	tol      int64
	t0, t1   int64 // interval of the whole round
	execs    []*exec
	state0   map[string]mval
	stateF   map[string]mval
	events   []rec

	out      []finding
	nChecked int
	nSilent  int
	nChanges int

	nDoubleClaims int
}

func (rc *roundCheck) fail(sig, what string, details any) {
	rc.out = append(rc.out, finding{Sig: sig, What: what, Round: rc.round, Sub: rc.sub, Details: details})
}

func (rc *roundCheck) mode() string {
	if rc.conc {
		return "concurrent-writers"
	}
	return "single-writer"
}

// run judges the events one subscriber got during one round against the acknowledged changes
// of that round.
func (rc *roundCheck) run() {
	caps := map[string][]*capEntry{}
	add := func(c *capEntry) { caps[c.key] = append(caps[c.key], c) }
	// keys that more than one writer touched in this round: what the responses say about them
	// (status, which value a shift took, whether a delete found the key) is not a reliable change
	// log there (that is decided by other properties); the chain of states is
	lanesOf := map[string]map[int]bool{}
	touch := func(k string, lane int) {
		if lanesOf[k] == nil {
			lanesOf[k] = map[int]bool{}
		}
		lanesOf[k][lane] = true
	}
	for _, e := range rc.execs {
		if e.Op.Key != "" {
			touch(e.Op.Key, e.Lane)
		}
		for _, k := range e.Op.Keys {
			touch(k, e.Lane)
		}
		for _, sh := range e.Shifted {
			touch(sh.Key, e.Lane)
		}
		if e.Op.K == "shiftExp" {
			for _, k := range sharedExp {
				touch(k, e.Lane)
			}
		}
	}
	contended := func(k string) bool { return len(lanesOf[k]) > 1 }
	for _, e := range rc.execs {
		switch e.Op.K {
		case "set", "setIdent", "setNoOver", "setNoCreate", "inc", "incFail", "patch", "patchNoop", "patchFail":
			c := &capEntry{ex: e, key: e.Op.Key, val: e.Val}
			switch {
			case e.Silent:
				c.silent = true
			case e.Changed:
				switch e.Status {
				case "NEW", "CREATED":
					c.want = "NEW"
				case "UPDATED", "PATCHED":
					c.want = "UPDATED"
				}
			default:
				c.silent = true
			}
			add(c)
		case "del":
			for _, k := range e.Deleted {
				add(&capEntry{ex: e, key: k, del: true})
			}
		case "shiftKeys", "shiftExp":
			for _, s := range e.Shifted {
				add(&capEntry{ex: e, key: s.Key, del: true, val: s.Val})
			}
		}
		if e.Silent || (!e.Changed && len(e.Deleted) == 0 && len(e.Shifted) == 0) {
			rc.nSilent++
		}
	}
	for _, l := range caps {
		for _, c := range l {
			if !c.silent {
				rc.nChanges++
			}
		}
	}

	type matched struct {
		r   rec
		cap *capEntry
	}
	perKey := map[string][]matched{}
	lastGlobal := -1
	// Two requests of one writer can produce equal events (inc of a missing counter twice gives
	// NEW I:1 twice, two deletes of one key, …) and a subscriber that joins or leaves during the
	// round sees only some of them. An event is attributed to the earliest request that can have
	// produced it and does not lie before a request of the same writer an earlier event was
	// attributed to; for classes of equal events that is a consistent attribution whenever one
	// exists, so an order violation is only reported when every attribution is out of order.
	laneProgress := map[int]int{}
	progress := func(lane int) int {
		if v, ok := laneProgress[lane]; ok {
			return v
		}
		return -1
	}
	better := func(cand, cur *capEntry) bool {
		if cur == nil {
			return true
		}
		cf, uf := cand.ex.Idx >= progress(cand.ex.Lane), cur.ex.Idx >= progress(cur.ex.Lane)
		if cf != uf {
			return cf
		}
		return cand.ex.Lane == cur.ex.Lane && cand.ex.Idx < cur.ex.Idx
	}
	for _, r := range rc.events {
		m := r.Msg
		if m == nil {
			rc.fail("event:nil-message", "the stream was asked to send a nil / foreign message", viewOf(r))
			continue
		}
		key := evKey(m)
		if key == pinKey {
			continue
		}
		rc.nChecked++
		if m.GetSwampName() != rc.swamp {
			rc.fail("payload:swamp-name", fmt.Sprintf("event carries swamp name %q, subscribed to %q", m.GetSwampName(), rc.swamp), viewOf(r))
		}
		st := m.GetStatus()
		var c *capEntry
		switch st {
		case hydrapb.Status_NEW, hydrapb.Status_UPDATED:
			x := valOf(m.GetTreasure())
			var silent, dup *capEntry
			for _, cand := range caps[key] {
				if cand.del || cand.val != x {
					continue
				}
				if cand.silent {
					if silent == nil || (silent.matched > 0 && cand.matched == 0) {
						silent = cand
					}
					continue
				}
				if cand.matched > 0 {
					dup = cand
					continue
				}
				if better(cand, c) {
					c = cand
				}
			}
			switch {
			case c != nil:
				c.matched++
				if c.want != "" && c.want != st.String() && !contended(key) && (rc.required || silent == nil) {
					rc.fail(fmt.Sprintf("status:%s:event=%s:response=%s", c.ex.Op.K, st, c.ex.Status),
						fmt.Sprintf("%s on key %s answered %s but the event says %s", c.ex.label(), key, c.ex.Status, st), viewOf(r))
				}
				// client metadata travels in the payload; it has nothing to do with EventTime
				if got := tsNanos(m.GetTreasure().GetUpdatedAt()); c.ex.ChkUAt && got != c.ex.WantUAt {
					rc.fail("payload:"+st.String()+":updatedAt-differs:"+c.ex.Op.K, fmt.Sprintf("%s: the event's treasure carries UpdatedAt=%d, the record's UpdatedAt (as supplied by clients / stamped by the server on request) is %d", c.ex.label(), got, c.ex.WantUAt), viewOf(r))
				}
				if got := tsNanos(m.GetTreasure().GetCreatedAt()); c.ex.ChkCAt && got != c.ex.WantCAt {
					rc.fail("payload:"+st.String()+":createdAt-differs:"+c.ex.Op.K, fmt.Sprintf("%s: the event's treasure carries CreatedAt=%d, the record's CreatedAt is %d", c.ex.label(), got, c.ex.WantCAt), viewOf(r))
				}
				if c.ex.Exp != 0 && tsNanos(m.GetTreasure().GetExpiredAt()) != c.ex.Exp {
					rc.fail("payload:"+st.String()+":expiredAt-differs:"+c.ex.Op.K, fmt.Sprintf("%s set ExpiredAt=%d, the event's treasure carries %d", c.ex.label(), c.ex.Exp, tsNanos(m.GetTreasure().GetExpiredAt())), viewOf(r))
				}
			case silent != nil && (silent.matched == 0 || dup == nil):
				silent.matched++
				rc.fail("spurious:"+silent.ex.Op.K+":"+st.String(), fmt.Sprintf("%s event for %s on key %s, a request that changed nothing (answered %s)", st, silent.ex.label(), key, silent.ex.Status), viewOf(r))
				rc.timeCheck(r, silent.ex)
				continue
			case dup != nil:
				dup.matched++
				rc.fail("duplicate:"+dup.ex.Op.K+":"+st.String(), fmt.Sprintf("second %s event for the change made by %s (key %s)", st, dup.ex.label(), key), viewOf(r))
				continue
			default:
				rc.fail("event:unmatched:"+st.String()+":"+rc.mode(), fmt.Sprintf("%s event for key %s with value %s: no request of this round wrote that value", st, key, x), viewOf(r))
				rc.timeCheck(r, nil)
				continue
			}
		case hydrapb.Status_DELETED:
			x := valOf(m.GetDeletedTreasure())
			var anyVal, dup *capEntry
			for _, cand := range caps[key] {
				if !cand.del {
					continue
				}
				if cand.matched > 0 {
					if cand.val == x || cand.val == "" {
						dup = cand
					}
					continue
				}
				if cand.val == x && better(cand, c) {
					c = cand
				}
				if cand.val == "" && better(cand, anyVal) {
					anyVal = cand
				}
			}
			if c == nil {
				c = anyVal
			}
			if c == nil && contended(key) {
				// a shift that cloned the record before another writer changed it reports the older value
				for _, cand := range caps[key] {
					if cand.del && cand.matched == 0 && better(cand, c) {
						c = cand
					}
				}
			}
			switch {
			case c != nil:
				c.matched++
			case dup != nil:
				dup.matched++
				rc.fail("duplicate:"+dup.ex.Op.K+":DELETED", fmt.Sprintf("second DELETED event for key %s removed by %s", key, dup.ex.label()), viewOf(r))
				continue
			default:
				rc.fail("event:unmatched:DELETED:"+rc.mode(), fmt.Sprintf("DELETED event for key %s (value %s): no request of this round removed it", key, x), viewOf(r))
				rc.timeCheck(r, nil)
				continue
			}
		default:
			rc.fail("event:status:"+st.String(), "event with a status that is none of NEW/UPDATED/DELETED", viewOf(r))
			continue
		}
		if c.ex.Idx > progress(c.ex.Lane) {
			laneProgress[c.ex.Lane] = c.ex.Idx
		}
		rc.timeCheck(r, c.ex)
		perKey[key] = append(perKey[key], matched{r, c})
		if !rc.conc {
			g := c.ex.Idx
			if g < lastGlobal {
				rc.fail("order:single-writer:event-of-later-request-first", fmt.Sprintf("event of %s arrived after an event of a later request of the same writer", c.ex.label()), viewOf(r))
			}
			if g > lastGlobal {
				lastGlobal = g
			}
		}
	}

	if !rc.required {
		return
	}

	// exactly once: every acknowledged change has its event
	var keys []string
	for k := range caps {
		keys = append(keys, k)
	}
	sort.Strings(keys)
	for _, k := range keys {
		for _, c := range caps[k] {
			if c.silent || c.matched > 0 {
				continue
			}
			if c.del && contended(k) {
				rc.nDoubleClaims++ // two requests claim the same removal; the chain below decides
				continue
			}
			kind := "upsert"
			if c.del {
				kind = "DELETED"
			} else if c.want != "" {
				kind = c.want
			}
			rc.fail("missing:"+c.ex.Op.K+":"+kind+":"+rc.mode()+":"+rc.subTag, fmt.Sprintf("no event for the change %s made to key %s (response %s %v %v)", c.ex.label(), k, c.ex.Status, c.ex.Deleted, c.ex.Shifted), rc.dump())
		}
	}

	// per key: the events form the chain of committed states, from the state before the round to
	// the state after it
	for k, evs := range perKey {
		cur, present := rc.state0[k]
		broken := false
		lastDeleted := ""
		deletedVals := map[string]bool{}
		beforeUpdate, sawDeleted, recreated := "", false, false
		laneLast := map[int]int{}
		for _, me := range evs {
			m := me.r.Msg
			// (which of several claimants of a removal on a key written by several writers made
			// it is not determined: those events do not take part in the same-writer order check)
			if !me.cap.silent && !(me.cap.del && contended(k)) {
				if last, ok := laneLast[me.cap.ex.Lane]; ok && me.cap.ex.Idx < last {
					rc.fail("order:same-writer-same-key-reordered:"+rc.mode(), fmt.Sprintf("key %s: the event of %s arrived after the event of a later request of the same writer", k, me.cap.ex.label()), rc.dumpKey(k))
				}
				laneLast[me.cap.ex.Lane] = me.cap.ex.Idx
			}
			if broken {
				continue
			}
			if me.cap.silent {
				continue // already reported as spurious; it does not move the state
			}
			switch m.GetStatus() {
			case hydrapb.Status_NEW:
				if present {
					rc.fail("order:NEW-for-present-key:"+me.cap.ex.Op.K+":"+rc.mode(), fmt.Sprintf("key %s: NEW event (%s) although by the preceding events the key exists with %s", k, valOf(m.GetTreasure()), cur.Val), rc.dumpWith(me.r))
					broken = true
					continue
				}
				if !emptyTreasure(m.GetOldTreasure()) || !emptyTreasure(m.GetDeletedTreasure()) {
					rc.fail("payload:NEW:old-or-deleted-not-empty", fmt.Sprintf("key %s: NEW event carries OldTreasure/DeletedTreasure", k), viewOf(me.r))
				}
				cur, present = mval{Val: valOf(m.GetTreasure())}, true
				beforeUpdate = ""
				if sawDeleted {
					recreated = true
				}
			case hydrapb.Status_UPDATED:
				if !present && rc.conc {
					// A writer that saved a stale record object (fetched before the key was removed and
					// re-created) is announced as UPDATED with the re-created object as OldTreasure; that
					// can even overtake the NEW event of the re-created object it refers to. Same defect
					// as an OldTreasure that is neither the previous nor the new value.
					o, nv := valOf(m.GetOldTreasure()), valOf(m.GetTreasure())
					refers := false
					for _, other := range evs {
						if other.r.Msg.GetStatus() == hydrapb.Status_NEW && valOf(other.r.Msg.GetTreasure()) == o {
							refers = true
						}
					}
					if o != "" && o != nv && refers {
						rc.fail("payload:UPDATED:old-value:"+me.cap.ex.Op.K+":other:"+rc.mode(), fmt.Sprintf("key %s: UPDATED event of %s (new %s) carries OldTreasure=%s, the value of another record object of this key whose NEW event is elsewhere in the stream; by the preceding events the key did not exist", k, me.cap.ex.label(), nv, o), rc.dumpKey(k))
						broken = true
						continue
					}
				}
				if !present {
					rc.fail("order:UPDATED-for-absent-key:"+me.cap.ex.Op.K+":"+rc.mode(), fmt.Sprintf("key %s: UPDATED event (%s) although by the preceding events the key does not exist", k, valOf(m.GetTreasure())), rc.dumpWith(me.r))
					broken = true
					continue
				}
				old := valOf(m.GetOldTreasure())
				if old != cur.Val {
					how := "other:" + rc.mode()
					switch {
					case old == valOf(m.GetTreasure()):
						how = "shows-new-value"
					case old == "":
						how = "empty"
					}
					rc.fail("payload:UPDATED:old-value:"+me.cap.ex.Op.K+":"+how, fmt.Sprintf("key %s: UPDATED event of %s carries OldTreasure=%s, the value before the change was %s (new %s)", k, me.cap.ex.label(), old, cur.Val, valOf(m.GetTreasure())), viewOf(me.r))
				}
				if !emptyTreasure(m.GetDeletedTreasure()) {
					rc.fail("payload:UPDATED:deleted-not-empty", fmt.Sprintf("key %s: UPDATED event carries DeletedTreasure", k), viewOf(me.r))
				}
				beforeUpdate = cur.Val
				cur.Val = valOf(m.GetTreasure())
			case hydrapb.Status_DELETED:
				x := valOf(m.GetDeletedTreasure())
				if !present && lastDeleted != "" && (x == lastDeleted || x == "") {
					// (the second report of a record that had been written to disk carries an emptied body)
					rc.fail("duplicate:DELETED:one-removal-reported-twice:"+me.cap.ex.Op.K+":"+rc.mode(), fmt.Sprintf("key %s: second DELETED event (value %q) right after the DELETED event for %s; the key was not re-created in between", k, x, lastDeleted), rc.dumpWith(me.r))
					continue
				}
				if !present {
					rc.fail("order:DELETED-for-absent-key:"+me.cap.ex.Op.K+":"+rc.mode(), fmt.Sprintf("key %s: DELETED event (%s) although by the preceding events the key does not exist", k, x), rc.dumpWith(me.r))
					broken = true
					continue
				}
				if x != cur.Val && deletedVals[x] {
					rc.fail("duplicate:DELETED:earlier-removed-record-reported-again:"+me.cap.ex.Op.K+":"+rc.mode(), fmt.Sprintf("key %s: DELETED event carries %s, a value whose removal was already reported in this round; by the preceding events the key now held %s", k, x, cur.Val), rc.dumpKey(k))
				} else if x != cur.Val && beforeUpdate != "" && x == beforeUpdate {
					how := "plain"
					if recreated {
						how = "key-removed-and-re-created-in-the-round"
					}
					rc.fail("payload:DELETED:value-is-the-one-before-the-last-update:"+how+":"+me.cap.ex.Op.K+":"+rc.mode(), fmt.Sprintf("key %s: DELETED event carries %s, the value the key held before the UPDATED event that announced %s: the announced update is not what the swamp held", k, x, cur.Val), rc.dumpKey(k))
				} else if x != cur.Val {
					rc.fail("payload:DELETED:value-is-not-the-removed-one:"+me.cap.ex.Op.K+":"+rc.mode(), fmt.Sprintf("key %s: DELETED event carries %s, by the preceding events the key held %s", k, x, cur.Val), rc.dumpKey(k))
				}
				if !emptyTreasure(m.GetTreasure()) || !emptyTreasure(m.GetOldTreasure()) {
					rc.fail("payload:DELETED:new-or-old-not-empty", fmt.Sprintf("key %s: DELETED event carries Treasure/OldTreasure", k), viewOf(me.r))
				}
				present = false
				lastDeleted = x
				deletedVals[x] = true
				sawDeleted = true
				beforeUpdate = ""
			}
			if m.GetStatus() != hydrapb.Status_DELETED {
				lastDeleted = ""
			}
		}
		if broken {
			continue
		}
		fin, finPresent := rc.stateF[k]
		if present != finPresent || (present && fin.Val != cur.Val) {
			how := "plain"
			sawDel := false
			for _, me := range evs {
				switch me.r.Msg.GetStatus() {
				case hydrapb.Status_DELETED:
					sawDel = true
				case hydrapb.Status_NEW:
					if sawDel {
						how = "key-removed-and-re-created-in-the-round"
					}
				}
			}
			rc.fail("state:events-do-not-lead-to-final-state:"+how+":"+rc.mode(), fmt.Sprintf("key %s: replaying the events gives present=%v value=%s, the swamp holds present=%v value=%s", k, present, cur.Val, finPresent, fin.Val), rc.dumpKey(k))
		}
	}
}

func (rc *roundCheck) dumpWith(r rec) any {
	m := rc.dump().(map[string]any)
	m["event"] = viewOf(r)
	m["state_before_round"] = rc.state0
	return m
}

func (rc *roundCheck) dumpKey(k string) any {
	var evs []evView
	for _, r := range rc.events {
		if r.Msg != nil && evKey(r.Msg) == k {
			evs = append(evs, viewOf(r))
		}
	}
	var reqs []string
	for _, e := range rc.execs {
		hit := e.Op.Key == k || e.Op.K == "shiftExp"
		for _, kk := range e.Op.Keys {
			hit = hit || kk == k
		}
		if hit {
			reqs = append(reqs, fmt.Sprintf("%s key=%s%v val=%s -> %s %s", e.label(), e.Op.Key, e.Op.Keys, e.Val, e.Status, e.Err))
		}
	}
	return map[string]any{"key": k, "events_of_the_key": evs, "requests_on_the_key": reqs, "state_before_round": rc.state0[k], "state_after_round": rc.stateF[k]}
}

// dump renders what the subscriber got in this round and what the writers were answered.
func (rc *roundCheck) dump() any {
	var evs []evView
	for i, r := range rc.events {
		if i < 60 {
			evs = append(evs, viewOf(r))
		}
	}
	var reqs []string
	for i, e := range rc.execs {
		if i < 60 {
			reqs = append(reqs, fmt.Sprintf("%s key=%s%v val=%s -> %s %s", e.label(), e.Op.Key, e.Op.Keys, e.Val, e.Status, e.Err))
		}
	}
	return map[string]any{"events_of_the_round": evs, "requests_of_the_round": reqs}
}

func (rc *roundCheck) timeCheck(r rec, e *exec) {
	t0, t1, who := rc.t0, rc.t1, "the round"
	if e != nil {
		t0, t1, who = e.T0, e.T1, e.label()
	}
	if v := timeVerdict(r.Msg.GetEventTime(), t0, t1, rc.tol); v != "" {
		rc.fail("time:event-time:"+v, fmt.Sprintf("EventTime %v is not the time of the change: %s ran in [%d, %d] (unix ns)", strings.TrimSpace(viewOf(r).Time), who, t0, t1), viewOf(r))
	}
}
