package c19

import (
	"context"
	"encoding/hex"
	"fmt"
	"sort"
	"strings"
	"sync"
	"sync/atomic"
	"testing/synctest"
	"time"

	hydrapb "github.com/hydraide/hydraide/sdk/go/hydraidego/v3/hydraidepbgo"
	"google.golang.org/protobuf/types/known/timestamppb"

	"verifharness/rig"
)

type sub struct {
	id     int
	fs     *fakeStream
	cancel context.CancelFunc
	done   chan struct{}
	err    error
	state  string // "" | opening | open | closing | closed
	from   int    // stream index where the current round's window starts
	inWin  bool
	gap    int  // stream index from which events lie between rounds
	frozen int  // stream length once the handler had returned
	opened int  // round
	during bool // subscribed while round `opened` was running
	tag    string
}

type runner struct {
	c      *rig.Check
	h      *hist
	r      *rig.Rig
	bubble bool
	swamp  string
	island uint64
	tol    int64

	uid   atomic.Int64
	subs  map[int]*sub
	model map[string]mval

	mu       sync.Mutex
	findings []finding
	inconc   string

	// measured
	nReqWindows, nOptWindows, nEvents, nChanges, nSilent, nContended, nEvicted, nDestroyed int
	maxSenders, nDoubleClaims, nIdleChanged                                                int
	overlaps                                                                               int64
}

func (x *runner) inconclusive(s string) {
	x.mu.Lock()
	if x.inconc == "" {
		x.inconc = s
	}
	x.mu.Unlock()
}

func (x *runner) now() int64 { return time.Now().UnixNano() }

// ---------------------------------------------------------------------------------------------
// requests

func mpStr(s string) []byte {
	if len(s) < 32 {
		return append([]byte{0xA0 | byte(len(s))}, s...)
	}
	return append([]byte{0xD9, byte(len(s))}, s...)
}

func docBody(v string) []byte {
	return append([]byte{0xC7, 0x00, 0x81, 0xA1, 'v'}, mpStr(v)...)
}

func docVal(v string) string { return "B:" + hex.EncodeToString(docBody(v)) }

const (
	pastBase   = int64(473385600e9)  // 1985-01-01
	futureBase = int64(3786912000e9) // 2090-01-01
)

// clientTime turns a metadata choice of the generator into the timestamp sent with the request
// and the instant it means (0 = the field stays as it is: not sent, or the zero timestamp).
func clientTime(kind, id int64) (int64, *timestamppb.Timestamp) {
	switch kind {
	case 1:
		return 0, &timestamppb.Timestamp{}
	case 2:
		return pastBase + id, ts(pastBase + id)
	case 3:
		return futureBase + id, ts(futureBase + id)
	}
	return 0, nil
}

func ts(ns int64) *timestamppb.Timestamp { return timestamppb.New(time.Unix(0, ns).UTC()) }

func (x *runner) setReq(key string, kvp *hydrapb.KeyValuePair, create, overwrite bool) (string, error) {
	kvp.Key = key
	resp, err := x.r.GW.Set(context.Background(), &hydrapb.SetRequest{Swamps: []*hydrapb.SwampRequest{{IslandID: x.island, SwampName: x.swamp,
		CreateIfNotExist: create, Overwrite: overwrite, KeyValues: []*hydrapb.KeyValuePair{kvp}}}})
	if err != nil {
		return "", err
	}
	for _, s := range resp.GetSwamps() {
		if s.ErrorCode != nil {
			return "swamp:" + s.GetErrorCode().String(), nil
		}
		for _, ks := range s.GetKeysAndStatuses() {
			if ks.GetKey() == key {
				return ks.GetStatus().String(), nil
			}
		}
	}
	return "", fmt.Errorf("no status for key %s in %v", key, resp)
}

func (x *runner) kvpFor(key, val string, ival int64) (*hydrapb.KeyValuePair, string) {
	switch family(key) {
	case "int":
		return &hydrapb.KeyValuePair{Int64Val: &ival}, fmt.Sprintf("I:%d", ival)
	case "doc":
		return &hydrapb.KeyValuePair{BytesVal: docBody(val)}, docVal(val)
	}
	return &hydrapb.KeyValuePair{StringVal: &val}, "S:" + val
}

func kvpFromVal(v string) *hydrapb.KeyValuePair {
	switch {
	case strings.HasPrefix(v, "S:"):
		s := v[2:]
		return &hydrapb.KeyValuePair{StringVal: &s}
	case strings.HasPrefix(v, "I:"):
		var n int64
		fmt.Sscanf(v[2:], "%d", &n)
		return &hydrapb.KeyValuePair{Int64Val: &n}
	case strings.HasPrefix(v, "B:"):
		b, _ := hex.DecodeString(v[2:])
		return &hydrapb.KeyValuePair{BytesVal: b}
	}
	return nil
}

// docString extracts the string stored under "v" of a document value written by this monitor.
func docString(v string) (string, bool) {
	b, err := hex.DecodeString(strings.TrimPrefix(v, "B:"))
	if err != nil || len(b) < 6 || b[2] != 0x81 || b[3] != 0xA1 || b[4] != 'v' {
		return "", false
	}
	p := b[5:]
	switch {
	case p[0]&0xE0 == 0xA0 && len(p) == 1+int(p[0]&0x1F):
		return string(p[1:]), true
	case p[0] == 0xD9 && len(p) >= 2 && len(p) == 2+int(p[1]):
		return string(p[2:]), true
	}
	return "", false
}

// lane-local knowledge of the keys nobody else writes in this round
type laneView struct {
	known func(string) bool
	m     map[string]mval
}

func (x *runner) do(ri, li, oi int, o op, v *laneView) *exec {
	e := &exec{Round: ri, Lane: li, Idx: oi, Op: o}
	id := x.uid.Add(1)
	sval := fmt.Sprintf("v%d", id)
	ival := id << 20
	ctx := context.Background()
	known := o.Key != "" && v.known(o.Key)
	cur, present := v.m[o.Key]
	dev := func(f string, a ...any) {
		if e.Dev == "" {
			e.Dev = e.label() + ": " + fmt.Sprintf(f, a...)
		}
	}
	setErr := func(err error) {
		if err != nil {
			e.Err = err.Error()
			dev("request failed: %v", err)
		}
	}
	kind := o.K
	// kinds that need to know the key's state degrade to a plain write when they do not
	switch kind {
	case "setIdent":
		if !known || !present {
			kind = "set"
		}
	case "incFail":
		if !known || !present {
			return nil
		}
	case "patchNoop", "patchFail":
		if !known {
			return nil
		}
	}
	e.T0 = x.now()
	switch kind {
	case "set", "setNoOver", "setNoCreate":
		kvp, repr := x.kvpFor(o.Key, sval, ival)
		e.Val = repr
		if o.Exp != 0 {
			e.Exp = e.T0 + o.Exp
			kvp.ExpiredAt = ts(e.Exp)
		}
		uat, uts := clientTime(o.UAt, id)
		cat, cts := clientTime(o.CAt, id)
		kvp.UpdatedAt, kvp.CreatedAt = uts, cts
		if uat != 0 {
			e.ChkUAt, e.WantUAt = true, uat
		} else if known {
			e.ChkUAt, e.WantUAt = true, cur.UAt
		}
		if cat != 0 {
			e.ChkCAt, e.WantCAt = true, cat
		} else if known {
			e.ChkCAt, e.WantCAt = true, cur.CAt
		}
		create, over := true, true
		if kind == "setNoOver" {
			over = false
		}
		if kind == "setNoCreate" {
			create = false
		}
		st, err := x.setReq(o.Key, kvp, create, over)
		e.T1 = x.now()
		setErr(err)
		e.Status = st
		e.Changed = st == "NEW" || st == "UPDATED"
		if known {
			want := "UPDATED"
			switch {
			case !present && !create:
				want = "NOT_FOUND"
			case !present:
				want = "NEW"
			case !over:
				want = "NOTHING_CHANGED"
			}
			if want == "NOT_FOUND" && strings.HasPrefix(st, "swamp:") {
				st = "NOT_FOUND"
			}
			if st != want && err == nil {
				dev("Set answered %s, the key-value model says %s", st, want)
			}
			if want == "NOTHING_CHANGED" || want == "NOT_FOUND" {
				e.Silent = true
			} else {
				nv := cur // (the zero value when the key is missing)
				nv.Val = repr
				if e.Exp != 0 {
					nv.Exp = e.Exp
				}
				if uat != 0 {
					nv.UAt = uat
				}
				if cat != 0 {
					nv.CAt = cat
				}
				v.m[o.Key] = nv
			}
		}
	case "setIdent":
		kvp := kvpFromVal(cur.Val)
		e.Val = cur.Val
		e.Silent = true
		st, err := x.setReq(o.Key, kvp, true, true)
		e.T1 = x.now()
		setErr(err)
		e.Status = st
	case "inc", "incFail":
		req := &hydrapb.IncrementInt64Request{IslandID: x.island, SwampName: x.swamp, Key: o.Key, IncrementBy: o.D}
		if kind == "incFail" {
			req.Condition = &hydrapb.IncrementInt64Condition{RelationalOperator: hydrapb.Relational_EQUAL, Value: -987654321}
			e.Silent = true
			e.Val = cur.Val
		}
		if kind == "inc" && (o.MU || o.MC || o.Exp != 0) {
			yes := true
			ne, ex := &hydrapb.IncrementRequestMetadata{}, &hydrapb.IncrementRequestMetadata{}
			if o.MU {
				ne.UpdatedAt, ex.UpdatedAt = &yes, &yes
			}
			if o.MC {
				ne.CreatedAt = &yes
			}
			if o.Exp != 0 {
				e.Exp = e.T0 + o.Exp
				ne.ExpiredAt, ex.ExpiredAt = ts(e.Exp), ts(e.Exp)
			}
			req.SetIfNotExist, req.SetIfExist = ne, ex
		}
		resp, err := x.r.GW.IncrementInt64(ctx, req)
		e.T1 = x.now()
		setErr(err)
		if err == nil {
			e.Status = fmt.Sprintf("incremented=%v value=%d", resp.GetIsIncremented(), resp.GetValue())
			if kind == "inc" {
				e.Changed = resp.GetIsIncremented()
				e.Val = fmt.Sprintf("I:%d", resp.GetValue())
				if !e.Changed {
					dev("unconditional Increment answered IsIncremented=false")
				}
				if known {
					var base int64
					if present {
						fmt.Sscanf(strings.TrimPrefix(cur.Val, "I:"), "%d", &base)
					}
					if resp.GetValue() != base+o.D {
						dev("Increment answered %d, the key-value model says %d", resp.GetValue(), base+o.D)
					}
					v.m[o.Key] = x.stamped(e, o, cur, present)
				} else if o.MU && e.T0 == e.T1 {
					e.ChkUAt, e.WantUAt = true, e.T0
				}
			} else if resp.GetIsIncremented() {
				dev("Increment with a false condition answered IsIncremented=true")
			}
		}
	case "patch", "patchNoop", "patchFail":
		req := &hydrapb.PatchTreasuresRequest{IslandID: x.island, SwampName: x.swamp}
		p := &hydrapb.TreasurePatch{Key: o.Key}
		want := ""
		switch kind {
		case "patch":
			req.CreateIfNotExist = true
			p.Ops = []*hydrapb.PatchOp{{Op: hydrapb.PatchOp_SET, Path: "v", Value: mpStr(sval)}}
			e.Val = docVal(sval)
			if o.MU || o.MC || o.Exp != 0 {
				req.Meta = &hydrapb.PatchMeta{SetUpdatedAt: o.MU, SetCreatedAt: o.MC}
				if o.Exp != 0 {
					e.Exp = e.T0 + o.Exp
					req.Meta.SetExpiredAt = ts(e.Exp)
				}
			}
		case "patchNoop":
			e.Silent = true
			e.Val = cur.Val
			want = "PATCHED"
			if !present {
				want = "KEY_NOT_FOUND"
			}
			s, ok := docString(cur.Val)
			if o.D == 1 && present && ok {
				p.Ops = []*hydrapb.PatchOp{{Op: hydrapb.PatchOp_SET, Path: "v", Value: mpStr(s)}}
			} else {
				p.Ops = []*hydrapb.PatchOp{{Op: hydrapb.PatchOp_DELETE, Path: "zz"}}
			}
		case "patchFail":
			e.Silent = true
			e.Val = docVal(sval)
			want = "CONDITION_NOT_MET"
			if !present {
				want = "KEY_NOT_FOUND"
			}
			p.Condition = &hydrapb.PatchCondition{Path: "v", Operator: hydrapb.PatchCondition_EQUAL, Threshold: mpStr("never-written")}
			p.Ops = []*hydrapb.PatchOp{{Op: hydrapb.PatchOp_SET, Path: "v", Value: mpStr(sval)}}
		}
		req.Patches = []*hydrapb.TreasurePatch{p}
		resp, err := x.r.GW.PatchTreasures(ctx, req)
		e.T1 = x.now()
		setErr(err)
		if err == nil {
			if len(resp.GetResults()) != 1 {
				dev("PatchTreasures answered %d results", len(resp.GetResults()))
			} else {
				e.Status = resp.GetResults()[0].GetStatus().String()
			}
			if kind == "patch" {
				e.Changed = e.Status == "CREATED" || e.Status == "PATCHED"
				if !e.Changed {
					dev("PatchTreasures SET answered %s (%s)", e.Status, resp.GetResults()[0].GetError())
				}
				if known {
					w := "PATCHED"
					if !present {
						w = "CREATED"
					}
					if e.Status != w {
						dev("PatchTreasures answered %s, the key-value model says %s", e.Status, w)
					}
					v.m[o.Key] = x.stamped(e, o, cur, present)
				} else if o.MU && e.T0 == e.T1 {
					e.ChkUAt, e.WantUAt = true, e.T0
				}
			} else if e.Status != want {
				dev("PatchTreasures answered %s, expected %s", e.Status, want)
			}
		}
	case "del":
		resp, err := x.r.GW.Delete(ctx, &hydrapb.DeleteRequest{Swamps: []*hydrapb.DeleteRequest_SwampKeys{{IslandID: x.island, SwampName: x.swamp, Keys: o.Keys}}})
		e.T1 = x.now()
		setErr(err)
		got := map[string]string{}
		for _, s := range resp.GetResponses() {
			for _, ks := range s.GetKeyStatuses() {
				got[ks.GetKey()] = ks.GetStatus().String()
				if ks.GetStatus() == hydrapb.Status_DELETED {
					e.Deleted = append(e.Deleted, ks.GetKey())
				}
			}
		}
		e.Status = fmt.Sprint(got)
		for _, k := range o.Keys {
			if v.known(k) {
				_, p := v.m[k]
				if p != (got[k] == "DELETED") && err == nil {
					dev("Delete of key %s answered %q, the key-value model says present=%v", k, got[k], p)
				}
				delete(v.m, k)
			}
		}
	case "shiftKeys", "shiftExp":
		var tr []*hydrapb.Treasure
		var err error
		if kind == "shiftKeys" {
			var resp *hydrapb.ShiftByKeysResponse
			resp, err = x.r.GW.ShiftByKeys(ctx, &hydrapb.ShiftByKeysRequest{IslandID: x.island, SwampName: x.swamp, Keys: o.Keys})
			tr = resp.GetTreasures()
		} else {
			var resp *hydrapb.ShiftExpiredTreasuresResponse
			resp, err = x.r.GW.ShiftExpiredTreasures(ctx, &hydrapb.ShiftExpiredTreasuresRequest{IslandID: x.island, SwampName: x.swamp, HowMany: int32(o.D)})
			tr = resp.GetTreasures()
		}
		e.T1 = x.now()
		if err != nil {
			e.Err = err.Error() // a swamp that does not exist is answered with an error: nothing shifted
		}
		for _, t := range tr {
			e.Shifted = append(e.Shifted, kv{t.GetKey(), valOf(t)})
		}
		e.Status = fmt.Sprint(e.Shifted)
		if kind == "shiftKeys" {
			got := map[string]string{}
			for _, s := range e.Shifted {
				got[s.Key] = s.Val
			}
			for _, k := range o.Keys {
				if v.known(k) {
					mv, p := v.m[k]
					if gv, ok := got[k]; ok != p || (p && gv != mv.Val) {
						dev("ShiftByKeys of key %s returned %q (returned=%v), the key-value model says present=%v value=%s", k, gv, ok, p, mv.Val)
					}
					delete(v.m, k)
				}
			}
		} else {
			for _, s := range e.Shifted {
				if v.known(s.Key) {
					delete(v.m, s.Key)
				}
			}
		}
	case "get":
		e.Silent = true
		_, _ = x.r.GW.Get(ctx, &hydrapb.GetRequest{Swamps: []*hydrapb.GetSwamp{{IslandID: x.island, SwampName: x.swamp, Keys: o.Keys}}})
		e.T1 = x.now()
	case "getAll":
		e.Silent = true
		_, _ = x.r.GW.GetAll(ctx, &hydrapb.GetAllRequest{IslandID: x.island, SwampName: x.swamp})
		e.T1 = x.now()
	case "count":
		e.Silent = true
		_, _ = x.r.GW.Count(ctx, &hydrapb.CountRequest{Swamps: []*hydrapb.CountRequest_SwampIdentifier{{IslandID: x.island, SwampName: x.swamp}}})
		e.T1 = x.now()
	case "exists":
		e.Silent = true
		_, _ = x.r.GW.IsKeyExist(ctx, &hydrapb.IsKeyExistRequest{IslandID: x.island, SwampName: x.swamp, Key: o.Key})
		e.T1 = x.now()
	case "index":
		e.Silent = true
		it := []hydrapb.IndexType_Type{hydrapb.IndexType_KEY, hydrapb.IndexType_CREATION_TIME, hydrapb.IndexType_EXPIRATION_TIME}[o.D%3]
		_, _ = x.r.GW.GetByIndex(ctx, &hydrapb.GetByIndexRequest{IslandID: x.island, SwampName: x.swamp, IndexType: it, OrderType: hydrapb.OrderType_ASC, Limit: 10})
		e.T1 = x.now()
	default:
		panic("unknown op kind " + kind)
	}
	x.c.Seen("op_kinds", kind)
	return e
}

// stamped is the record an Increment / PatchTreasures leaves behind on a key only this writer
// touches: new value, requested ExpiredAt, and UpdatedAt / CreatedAt stamped by the server at the
// time of the call when the request metadata asks for it (CreatedAt only on creation); everything
// else stays. It also tells the oracle what the event's treasure must carry.
func (x *runner) stamped(e *exec, o op, cur mval, present bool) mval {
	nv := cur
	nv.Val = e.Val
	if e.Exp != 0 {
		nv.Exp = e.Exp
	}
	exact := e.T0 == e.T1
	if o.MU {
		nv.UAt = e.T0
	}
	if o.MC && !present {
		nv.CAt = e.T0
	}
	e.ChkUAt, e.WantUAt = exact || !o.MU, nv.UAt
	e.ChkCAt, e.WantCAt = exact || !(o.MC && !present), nv.CAt
	return nv
}

func (x *runner) readState() map[string]mval {
	out := map[string]mval{}
	resp, err := x.r.GW.Get(context.Background(), &hydrapb.GetRequest{Swamps: []*hydrapb.GetSwamp{{IslandID: x.island, SwampName: x.swamp, Keys: allKeys()}}})
	if err != nil {
		return out // "Swamp does not exist"
	}
	for _, s := range resp.GetSwamps() {
		for _, t := range s.GetTreasures() {
			if t.GetIsExist() {
				out[t.GetKey()] = mval{Val: valOf(t), Exp: tsNanos(t.GetExpiredAt()), UAt: tsNanos(t.GetUpdatedAt()), CAt: tsNanos(t.GetCreatedAt())}
			}
		}
	}
	return out
}

// ---------------------------------------------------------------------------------------------
// subscriptions

func (x *runner) open(s *sub) {
	ctx, cancel := context.WithCancel(context.Background())
	s.fs = newFakeStream(ctx)
	s.cancel = cancel
	s.done = make(chan struct{})
	s.frozen = -1
	go func() {
		s.err = x.r.GW.SubscribeToEvents(&hydrapb.SubscribeToEventsRequest{IslandID: x.island, SwampName: x.swamp}, s.fs)
		s.fs.returned.Store(true)
		close(s.done)
	}()
}

func isDone(s *sub) bool {
	select {
	case <-s.done:
		return true
	default:
		return false
	}
}

// settle waits until every subscription being opened is established and every handler being
// cancelled has returned.
func (x *runner) settle() {
	if x.bubble {
		synctest.Wait()
	}
	for _, s := range x.subs {
		switch s.state {
		case "opening":
			if !x.bubble {
				// the handler can only wait for the end of the stream (its Context) after it has
				// registered the subscriber; barrier() then confirms delivery with a probe write
				select {
				case <-s.fs.ctxCalled:
				case <-s.done:
				case <-time.After(30 * time.Second):
					x.inconclusive("watchdog: SubscribeToEvents neither blocked nor returned")
				}
			}
			if isDone(s) {
				x.inconclusive(fmt.Sprintf("SubscribeToEvents returned at once: %v", s.err))
				s.state = "closed"
				s.frozen = s.fs.length()
				continue
			}
			s.state = "open"
		case "closing":
			if !x.bubble {
				select {
				case <-s.done:
				case <-time.After(30 * time.Second):
				}
			}
			if !isDone(s) {
				x.inconclusive("SubscribeToEvents did not return after its stream context was cancelled")
			}
			s.state = "closed"
		}
	}
}

// barrier returns when everything the engine does on account of the requests issued so far has
// happened. Bubble: quiescence. Real time: a probe write to the pin key has been delivered to
// every open subscriber (streams are first-in first-out).
func (x *runner) barrier() {
	if x.bubble {
		synctest.Wait()
		return
	}
	deadline := time.Now().Add(10 * time.Second)
	for {
		v := fmt.Sprintf("probe%d", x.uid.Add(1))
		if _, err := x.setReq(pinKey, &hydrapb.KeyValuePair{StringVal: &v}, true, true); err != nil {
			x.inconclusive("probe write failed: " + err.Error())
			return
		}
		for try := 0; try < 200; try++ {
			ok := true
			for _, s := range x.subs {
				if s.state != "open" {
					continue
				}
				found := false
				recs := s.fs.snapshot()
				for i := len(recs) - 1; i >= 0 && !found; i-- {
					found = recs[i].Msg != nil && valOf(recs[i].Msg.GetTreasure()) == "S:"+v
				}
				ok = ok && found
			}
			if ok {
				return
			}
			time.Sleep(100 * time.Microsecond)
		}
		if time.Now().After(deadline) {
			x.inconclusive("watchdog: probe event not delivered to an open subscriber")
			return
		}
	}
}

func (x *runner) applyActs(acts []subAct, ri int, during bool) {
	for _, a := range acts {
		s := x.subs[a.Sub]
		switch a.Act {
		case "open":
			s = &sub{id: a.Sub, state: "opening", opened: ri, during: during, tag: "subscribed-alone"}
			nOpen := 0
			for _, b := range acts {
				if b.Act == "open" {
					nOpen++
				}
			}
			if nOpen > 1 {
				s.tag = "subscribed-at-the-same-time-as-another-subscriber"
			}
			x.subs[a.Sub] = s
			x.open(s)
		case "close":
			if s != nil && (s.state == "open" || s.state == "opening") {
				s.state = "closing"
				s.cancel()
			}
		}
	}
}

func (x *runner) add(f ...finding) {
	x.mu.Lock()
	x.findings = append(x.findings, f...)
	x.mu.Unlock()
}

func (x *runner) gapCheck(s *sub, upto int, ri int) {
	recs := s.fs.snapshot()
	for i := s.gap; i < upto && i < len(recs); i++ {
		if recs[i].Msg != nil && evKey(recs[i].Msg) == pinKey {
			continue
		}
		x.add(finding{Sig: "event:outside-any-write", What: "an event arrived while no write request was running (between two rounds: only reads and subscribe/unsubscribe)", Round: ri, Sub: s.id, Details: viewOf(recs[i])})
	}
	s.gap = upto
}

// ---------------------------------------------------------------------------------------------

func sameState(a, b map[string]mval) bool {
	for _, k := range allKeys() {
		if k == pinKey { // rewritten by the real-time barrier
			continue
		}
		v, p := a[k]
		w, q := b[k]
		if p != q || v != w {
			return false
		}
	}
	return true
}

func sortedSubs(m map[int]*sub) []*sub {
	var out []*sub
	for _, s := range m {
		out = append(out, s)
	}
	sort.Slice(out, func(i, j int) bool { return out[i].id < out[j].id })
	return out
}

func (x *runner) run() {
	h := x.h
	x.subs = map[int]*sub{}
	x.model = map[string]mval{}
	if h.Conc || !x.bubble {
		// the swamp never becomes empty under concurrent writers (emptying destroys it; the
		// races of that belong to other properties)
		v := "pin"
		if _, err := x.setReq(pinKey, &hydrapb.KeyValuePair{StringVal: &v}, true, true); err != nil {
			x.inconclusive("pin write failed: " + err.Error())
			return
		}
	}
	for ri := range h.Rounds {
		rd := &h.Rounds[ri]
		if x.bubble {
			time.Sleep(time.Duration(rd.SleepNs))
			if len(x.subs) > 0 && x.r.Active() == 0 && len(x.model) > 0 {
				x.nEvicted++
			}
		}
		x.applyActs(rd.Pre, ri, false)
		x.settle()
		x.barrier()
		for _, s := range sortedSubs(x.subs) {
			s.inWin = false
			switch s.state {
			case "open":
				s.from = s.fs.length()
				s.inWin = true
				x.gapCheck(s, s.from, ri)
			case "closed":
				if s.frozen < 0 {
					s.frozen = s.fs.length()
					x.gapCheck(s, s.frozen, ri)
				}
			}
		}
		// the state the round starts from is read now: an idle eviction and reload between two
		// rounds can change what the swamp holds (lost or resurrected keys are decided by the
		// lifecycle / durability properties, not here)
		state0 := x.readState()
		if ri > 0 && !sameState(state0, x.model) {
			x.nIdleChanged++
			for _, k := range allKeys() {
				_, p := x.model[k]
				_, q := state0[k]
				if k != pinKey && p != q {
					x.c.Seen("idle_changes", fmt.Sprintf("store=%s present-before-idle=%v present-after=%v", x.h.Store, p, q))
				}
			}
		}
		x.model = state0
		for _, s := range x.subs {
			if s.inWin {
				n := s.fs.length()
				x.gapCheck(s, n, ri)
				s.from = n
			}
		}
		// -------- the round
		start := make(chan struct{})
		var wg sync.WaitGroup
		results := make([][]*exec, len(rd.Lanes))
		views := make([]*laneView, len(rd.Lanes))
		single := len(rd.Lanes) == 1
		for li := range rd.Lanes {
			li := li
			lv := &laneView{m: map[string]mval{}}
			if single {
				lv.known = func(string) bool { return true }
			} else {
				lv.known = func(k string) bool { return isPrivateOf(k, li) }
			}
			for k, v := range x.model {
				if lv.known(k) {
					lv.m[k] = v
				}
			}
			views[li] = lv
			wg.Add(1)
			go func() {
				defer wg.Done()
				<-start
				for oi, o := range rd.Lanes[li] {
					if e := x.do(ri, li, oi, o, lv); e != nil {
						results[li] = append(results[li], e)
					}
				}
			}()
		}
		if len(rd.During) > 0 {
			wg.Add(1)
			go func() {
				defer wg.Done()
				<-start
				x.applyActs(rd.During, ri, true)
			}()
		}
		t0 := x.now()
		close(start)
		wg.Wait()
		t1 := x.now()
		x.settle()
		x.barrier()
		observed := x.readState()
		if len(observed) == 0 && len(state0) > 0 {
			x.nDestroyed++
		}

		var execs []*exec
		writers := map[string]map[int]bool{}
		for li, l := range results {
			for _, e := range l {
				execs = append(execs, e)
				if e.Dev != "" {
					x.inconclusive("response deviates from the key-value model (other properties decide that): " + e.Dev)
				}
				ks := append([]string{}, e.Op.Keys...)
				if e.Op.Key != "" {
					ks = append(ks, e.Op.Key)
				}
				for _, k := range ks {
					if writers[k] == nil {
						writers[k] = map[int]bool{}
					}
					writers[k][li] = true
				}
			}
		}
		for _, w := range writers {
			if len(w) > 1 {
				x.nContended++
				break
			}
		}
		for li, lv := range views {
			for _, k := range allKeys() {
				if !lv.known(k) || k == pinKey {
					continue
				}
				mv, p := lv.m[k]
				ov, op := observed[k]
				if p != op || (p && mv != ov) {
					x.inconclusive(fmt.Sprintf("state after round %d deviates from the key-value model (other properties decide that): key %s lane %d model=%v/%v read=%v/%v", ri, k, li, p, mv, op, ov))
				}
			}
		}
		x.model = observed

		x.mu.Lock()
		stop := x.inconc != ""
		x.mu.Unlock()

		for _, s := range sortedSubs(x.subs) {
			to := s.fs.length()
			var rc *roundCheck
			switch {
			case s.inWin && s.state == "open":
				rc = &roundCheck{required: true}
				x.nReqWindows++
			case s.inWin: // cancelled while the round ran
				rc = &roundCheck{}
				x.nOptWindows++
				s.frozen = to
			case s.during && s.opened == ri && s.state == "open": // subscribed while the round ran
				rc = &roundCheck{}
				x.nOptWindows++
			}
			if rc == nil {
				continue
			}
			recs := s.fs.snapshot()
			from := s.from
			if !s.inWin {
				from = 0
			}
			rc.swamp, rc.round, rc.sub, rc.conc, rc.tol, rc.subTag = x.swamp, ri, s.id, !single, x.tol, s.tag
			rc.t0, rc.t1, rc.execs, rc.state0, rc.stateF, rc.events = t0, t1, execs, state0, observed, recs[from:to]
			s.gap = to
			if stop {
				continue
			}
			rc.run()
			x.add(rc.out...)
			x.nEvents += rc.nChecked
			x.nDoubleClaims += rc.nDoubleClaims
			if rc.required {
				x.nChanges += rc.nChanges
				x.nSilent += rc.nSilent
			}
		}
		if stop {
			break
		}
	}
	// -------- the end: unsubscribe everybody, nothing more may arrive
	for _, s := range x.subs {
		if s.state == "open" || s.state == "opening" {
			s.state = "closing"
			s.cancel()
		}
	}
	x.settle()
	if x.bubble {
		synctest.Wait()
	}
	for _, s := range sortedSubs(x.subs) {
		n := s.fs.length()
		if s.frozen < 0 {
			s.frozen = n
		}
		x.gapCheck(s, n, len(h.Rounds))
	}
	// one more write after everybody has gone
	if x.inconc == "" {
		v := fmt.Sprintf("after%d", x.uid.Add(1))
		_, _ = x.setReq("s0", &hydrapb.KeyValuePair{StringVal: &v}, true, true)
		if x.bubble {
			synctest.Wait()
		}
	}
	for _, s := range sortedSubs(x.subs) {
		recs := s.fs.snapshot()
		if len(recs) > s.frozen {
			x.add(finding{Sig: "window:event-after-unsubscribe", What: fmt.Sprintf("subscriber %d got %d event(s) for writes issued after its handler had returned", s.id, len(recs)-s.frozen), Round: len(h.Rounds), Sub: s.id, Details: viewOf(recs[s.frozen])})
		}
		senders := map[int64]bool{}
		for _, r := range recs {
			senders[r.Gid] = true
		}
		if len(senders) > x.maxSenders {
			x.maxSenders = len(senders)
		}
		if n := s.fs.overlaps.Load(); n > 0 {
			x.overlaps += n
			var ex []evView
			for _, r := range recs {
				if r.Overlap && len(ex) < 6 {
					ex = append(ex, viewOf(r))
				}
			}
			x.add(finding{Sig: "send:overlapping-sends-on-one-stream", What: fmt.Sprintf("subscriber %d: %d Send calls on its stream overlapped another Send on the same stream (senders: %d goroutines)", s.id, n, len(senders)), Round: -1, Sub: s.id, Details: ex})
		}
	}
}
