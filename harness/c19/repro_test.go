package c19

import (
	"fmt"
	"sort"
	"testing"
	"testing/synctest"
	"time"

	"verifharness/rig"
)

// Minimal reproducers, one tiny history per defect this monitor found. Run (the racy ones show
// up far more often under -race; C19_NO_RAW=1 switches the deliberate race of the fake stream off):
//
//	cd /verif/harness && C19_NO_RAW=1 GOFLAGS=-mod=mod GOPROXY=off go test -race -tags verif -count=1 -run 'TestRepro$' -v ./c19/ | grep -v '^=== \|^ *--- \|WARNING\|^  \|^$'
//
// Each history is run `reps` times in a fresh bubble; the output lists the violation signatures
// and in how many repetitions each was seen.
func reproHists() map[string]*hist {
	lanes := func(l ...[]op) [][]op { return l }
	return map[string]*hist{
		// one subscriber, one writer: Set twice. Expect time:…nanoseconds-in-seconds-field (before fix-1)
		// and payload:UPDATED:old-value:shows-new-value:set
		"R1-time-and-old-value": {Idx: -11, Mode: "bubble", Store: "mem", Subs: 1, Rounds: []round{
			{SleepNs: 1e6, Pre: []subAct{{0, "open"}}, Lanes: lanes([]op{{K: "set", Key: "s0"}, {K: "set", Key: "s0"}})}}},
		// two clients subscribe at the same time, then one Set: one of them never gets anything
		"R2-two-subscribes-at-once": {Idx: -12, Mode: "bubble", Store: "mem", Subs: 2, Rounds: []round{
			{SleepNs: 1e6, Pre: []subAct{{0, "open"}, {1, "open"}}, Lanes: lanes([]op{{K: "set", Key: "s0"}})}}},
		// two ShiftByKeys of the same key at the same time: both return it, two DELETED events
		"R3-one-removal-two-DELETED": {Idx: -13, Mode: "bubble", Store: "mem", Conc: true, Subs: 1, Rounds: []round{
			{SleepNs: 1e6, Pre: []subAct{{0, "open"}}, Lanes: lanes([]op{{K: "set", Key: "s0"}})},
			{SleepNs: 1e6, Lanes: lanes([]op{{K: "shiftKeys", Keys: []string{"s0"}}}, []op{{K: "shiftKeys", Keys: []string{"s0"}}})}}},
		// Delete and re-creating Set of the same key at the same time: NEW arrives before DELETED
		"R4-NEW-before-DELETED": {Idx: -14, Mode: "bubble", Store: "mem", Conc: true, Subs: 1, Rounds: []round{
			{SleepNs: 1e6, Pre: []subAct{{0, "open"}}, Lanes: lanes([]op{{K: "set", Key: "s0"}})},
			{SleepNs: 1e6, Lanes: lanes([]op{{K: "del", Keys: []string{"s0"}}}, []op{{K: "set", Key: "s0"}}, []op{{K: "set", Key: "s0"}})}}},
		// two writers on different keys: their Sends on the one stream overlap
		"R5-overlapping-sends": {Idx: -15, Mode: "bubble", Store: "mem", Conc: true, Subs: 1, Rounds: []round{
			{SleepNs: 1e6, Pre: []subAct{{0, "open"}}, Lanes: lanes(
				[]op{{K: "set", Key: "s0"}, {K: "set", Key: "s0"}, {K: "set", Key: "s0"}},
				[]op{{K: "set", Key: "s1"}, {K: "set", Key: "s1"}, {K: "set", Key: "s1"}})}}},
	}
}

func TestRepro(t *testing.T) {
	c := rig.NewCheck(t, "C19", "exploration") // never finished: nothing is written
	reps := 200
	hs := reproHists()
	var names []string
	for n := range hs {
		names = append(names, n)
	}
	sort.Strings(names)
	for _, name := range names {
		h := hs[name]
		seen := map[string]int{}
		for i := 0; i < reps; i++ {
			root := rig.TempRoot("c19repro")
			var x *runner
			t.Run("rep", func(t *testing.T) { // (a race report ends the bubble's test, not the loop)
				synctest.Test(t, func(t *testing.T) {
					r := rig.New(rig.Options{Root: root})
					x = newRunner(c, h, r, true)
					x.run()
					r.Stop()
					time.Sleep(2 * time.Minute)
				})
			})
			rig.RemoveAll(root)
			once := map[string]bool{}
			for _, f := range x.findings {
				once[f.Sig] = true
			}
			for s := range once {
				seen[s]++
			}
			if x.inconc != "" {
				seen["(inconclusive) "+x.inconc]++
			}
		}
		var sigs []string
		for s := range seen {
			sigs = append(sigs, s)
		}
		sort.Strings(sigs)
		fmt.Printf("%s (%d repetitions)\n", name, reps)
		for _, s := range sigs {
			fmt.Printf("    %4d x %s\n", seen[s], s)
		}
	}
}
