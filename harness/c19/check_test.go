// C19 — subscribers get each committed change once, in order, with correct time.
//
// Monitor: generated histories are run against the real gateway handlers. 1–3 subscribers
// (SubscribeToEvents on fake server streams that record every Send with sequence number, sender
// goroutine and an in-flight counter) are opened and cancelled around rounds of writes: Set
// (new / changed / identical / Overwrite=false / CreateIfNotExist=false), IncrementInt64 (plain,
// failing condition), PatchTreasures (changing, no-op, failing condition), ShiftByKeys,
// ShiftExpiredTreasures, Delete, and reads. A round has one writer, or 2–6 writers released at
// the same instant. Between rounds the engine is run to quiescence (synctest bubble; in the
// real-time variant: until a probe write has been delivered), the swamp is read back, and for
// every subscriber the events it got during the round are judged against the acknowledged
// changes of that round: exactly once, status and payloads, per-key order as a chain of states
// from the state before the round to the state after it, EventTime inside the call's interval
// (a single virtual instant in a bubble), nothing for reads and saves that change nothing,
// no two Sends on one stream overlapping, no race report on the stream.
package c19

import (
	"fmt"
	"os"
	"regexp"
	"strings"
	"testing"
	"testing/synctest"
	"time"

	"verifharness/rig"
)

type spec struct {
	From   int     `json:"from"`
	To     int     `json:"to"`
	Fixed  bool    `json:"fixed,omitempty"`
	Replay *hist   `json:"replay,omitempty"`
	Rep    int     `json:"rep,omitempty"`
	HO     *hoSpec `json:"ho,omitempty"`
}

func newRunner(c *rig.Check, h *hist, r *rig.Rig, bubble bool) *runner {
	x := &runner{c: c, h: h, r: r, bubble: bubble}
	tag := fmt.Sprintf("h%d", h.Idx)
	if h.Idx < 0 {
		tag = fmt.Sprintf("f%d", -h.Idx)
	}
	pattern := "c19/" + tag + "/*"
	x.swamp = "c19/" + tag + "/x"
	x.island = rig.Island(x.swamp)
	idle := int64(2)
	if !bubble {
		idle = 3600
		x.tol = 2e9
	}
	switch h.Store {
	case "mem":
		r.Register(pattern, true, 3600, 0)
	case "disk0":
		r.Register(pattern, false, idle, 0)
	default:
		r.Register(pattern, false, idle, 1)
	}
	return x
}

func report(c *rig.Check, x *runner, sen *rig.Sentinel) {
	h := x.h
	class := h.Mode + ":single-writer"
	if h.Conc {
		class = h.Mode + ":concurrent-writers"
	}
	c.Case(rig.Dump(h), x.inconc == "" && x.nChanges > 0 && x.nSilent > 0)
	c.Sample(h)
	c.Seen("history_classes", class)
	c.Count("histories_"+strings.ReplaceAll(class, ":", "_"), 1)
	c.Count("rounds", int64(len(h.Rounds)))
	c.Count("subscribers", int64(len(x.subs)))
	c.Count("windows_round_strictly_inside", int64(x.nReqWindows))
	c.Count("windows_round_overlapping_subscribe_or_cancel", int64(x.nOptWindows))
	c.Count("events_checked", int64(x.nEvents))
	c.Count("required_change_events", int64(x.nChanges))
	c.Count("silent_requests_inside_windows", int64(x.nSilent))
	c.Count("rounds_with_key_written_by_several_writers", int64(x.nContended))
	c.Count("rounds_started_on_evicted_swamp_with_subscribers", int64(x.nEvicted))
	c.Count("rounds_that_emptied_the_swamp", int64(x.nDestroyed))
	c.Count("overlapping_sends", x.overlaps)
	c.Count("rounds_where_the_swamp_content_changed_while_idle", int64(x.nIdleChanged))
	c.Count("removals_claimed_by_two_requests_but_reported_once", int64(x.nDoubleClaims))
	if x.maxSenders > 1 {
		c.Count("streams_fed_by_several_goroutines", 1)
	}
	if x.inconc != "" {
		c.Inconclusive(x.inconc)
	}
	for _, p := range sen.Drain("panic") {
		if strings.Contains(p.Attrs, "SubscribeToEvents") || strings.Contains(p.Attrs, "eventCallback") || strings.Contains(p.Attrs, "sendEventToHydra") || strings.Contains(p.Attrs, "c19.(*fakeStream)") {
			x.findings = append(x.findings, finding{Sig: "panic:recovered-on-the-event-path", What: "recovered panic while delivering an event: " + p.Msg + " " + trunc(p.Attrs, 1400), Round: -1})
		} else {
			c.Count("recovered_panics_elsewhere", 1)
		}
	}
	sen.Drain()
	first := map[string]finding{}
	count := map[string]int{}
	var order []string
	for _, f := range x.findings {
		if _, ok := first[f.Sig]; !ok {
			first[f.Sig] = f
			order = append(order, f.Sig)
		}
		count[f.Sig]++
	}
	for _, sig := range order {
		f := first[sig]
		c.Violate(sig, fmt.Sprintf("%s [history %d %s, round %d, subscriber %d; %d such finding(s) in this history]", f.What, h.Idx, class, f.Round, f.Sub, count[sig]),
			map[string]any{"hist": h, "finding": f, "count": count[sig]})
	}
}

func trunc(s string, n int) string {
	if len(s) > n {
		return s[:n] + "…"
	}
	return s
}

func runBubble(t *testing.T, c *rig.Check, h *hist, sen *rig.Sentinel) {
	root := rig.TempRoot("c19")
	defer rig.RemoveAll(root)
	var x *runner
	// a subtest of its own: a bubble in which the race detector fired ends its test with FailNow
	t.Run(fmt.Sprintf("h%d", h.Idx), func(t *testing.T) {
		synctest.Test(t, func(t *testing.T) {
			r := rig.New(rig.Options{Root: root})
			x = newRunner(c, h, r, true)
			x.run()
			r.Stop()
			time.Sleep(2 * time.Minute)
		})
	})
	if x == nil {
		c.Inconclusive("bubble did not start")
		return
	}
	report(c, x, sen)
}

func child(t *testing.T, c *rig.Check) {
	var sp spec
	c.ChildSpec(&sp)
	sen := rig.InstallSentinel()
	if sp.HO != nil {
		runHandover(t, c, sp.HO, sen)
		return
	}
	var hists []*hist
	switch {
	case sp.Replay != nil:
		hists = append(hists, sp.Replay)
	default:
		if sp.Fixed {
			hists = append(hists, fixedHists()...)
		}
		for i := sp.From; i < sp.To; i++ {
			hists = append(hists, gen(c, i))
		}
	}
	var real []*hist
	for _, h := range hists {
		if h.Mode == "bubble" {
			runBubble(t, c, h, sen)
		} else {
			real = append(real, h)
		}
	}
	if len(real) == 0 {
		return
	}
	root := rig.TempRoot("c19r")
	defer rig.RemoveAll(root)
	r := rig.New(rig.Options{Root: root})
	for _, h := range real {
		x := newRunner(c, h, r, false)
		x.run()
		report(c, x, sen)
	}
	r.Stop()
}

var digits = regexp.MustCompile(`[0-9]+`)

// crashOnEventPath reports whether the goroutine that hit the fatal error / panic was delivering
// an event (its stack is the first goroutine block after the message).
func crashOnEventPath(logPath string) bool {
	b, err := os.ReadFile(logPath)
	if err != nil {
		return false
	}
	s := string(b)
	i := strings.Index(s, "fatal error:")
	if j := strings.Index(s, "panic:"); i < 0 || (j >= 0 && j < i) {
		i = j
	}
	if i < 0 {
		return false
	}
	s = s[i:]
	if j := strings.Index(s, "\ngoroutine "); j >= 0 {
		s = s[j+1:]
		if k := strings.Index(s, "\n\n"); k >= 0 {
			s = s[:k]
		}
	}
	for _, m := range []string{"SubscribeToEvents", "eventCallbackFunction", "sendEventToHydra", "sendDeletedEventToClient", "c19.(*fakeStream)"} {
		if strings.Contains(s, m) {
			return true
		}
	}
	return false
}

func TestCheck(t *testing.T) {
	c := rig.NewCheck(t, "C19", "exploration")
	defer c.Finish()
	if c.IsChild() {
		child(t, c)
		return
	}
	c.Rule = "a history = 3-7 rounds of writes/reads on one swamp (memory, disk, disk with immediate write) with 1-3 SubscribeToEvents subscribers opened/cancelled between rounds (exact window edges) or while a round runs (ambiguous edges); a round = one writer or 2-6 writers started at the same instant, on shared keys (only requests whose response tells what happened) and writer-private keys (also identical Set, no-op / failing-condition patches and increments); 50% single-writer bubble, 30% concurrent bubble, 20% concurrent real time; everything under -race in child processes; non-trivial = inside a window that contains the whole round at least one acknowledged change was required to produce exactly one event AND at least one read or change-nothing request was required to produce none, and the history was not inconclusive; distinct = distinct history JSON"
	c.Assumptions = []string{
		"EventTime is compared as a google.protobuf.Timestamp with nanosecond resolution: in a bubble it must lie in the call's [start,end] (one virtual instant unless the engine slept); in the real-time variant a tolerance of 2 s around the call is allowed (wall clock steps)",
		"requests that change nothing, per the documented statuses: Set of the identical value (NOTHING_CHANGED: 'skipped due to Overwrite=false or same value'), Set with Overwrite=false on an existing key, Set with CreateIfNotExist=false on a missing key, Increment whose condition is false, PatchTreasures answered KEY_NOT_FOUND / CONDITION_NOT_MET, PatchTreasures whose ops leave the body byte-identical (DELETE of a missing field, SET of the stored value) without metadata, and all reads",
		"a round that runs while a subscriber is being subscribed or cancelled may or may not be reported to it (each event must still belong to a request of that round, at most once, with the right time); events for rounds entirely after establishment (quiescence after the handler started / a delivered probe write) and entirely before cancellation are required; after the handler has returned nothing may arrive",
		"under concurrent writers the commit order of a key is taken from the event stream itself and must be a chain of states from the state read before the round to the state read after it, every acknowledged change matched by exactly one event (unique values; deletes by count and, for shifts, by returned value); same-writer same-key order must be kept; nothing is demanded about the order of different keys",
		"responses that contradict the plain key-value model on keys only one writer touches (status codes, increments, final state) make the history inconclusive, not violated: those semantics are decided by C06/C09",
		"concurrent histories keep one key that is never deleted so the swamp is never destroyed while writers run; in-memory swamps are not idle-evicted (their eviction drops records, a lifecycle matter)",
		"real-time variant: a subscription counts as established once a probe write to the pin key has been delivered to it, and a round as finished once a later probe write has been delivered (streams are first-in first-out)",
	}
	var specs []any
	if p := c.ReplayPath(); p != "" {
		var w struct {
			Witness struct {
				Hist     *hist   `json:"hist"`
				Handover *hoSpec `json:"handover"`
			} `json:"witness"`
		}
		rig.ReadJSON(p, &w)
		switch {
		case w.Witness.Handover != nil:
			for i := 0; i < 4; i++ {
				specs = append(specs, spec{HO: w.Witness.Handover, Rep: i})
			}
		case w.Witness.Hist == nil:
			t.Fatalf("replay file has no history")
		default:
			n := 1
			if w.Witness.Hist.Conc {
				n = 8
			}
			for i := 0; i < n; i++ {
				specs = append(specs, spec{Replay: w.Witness.Hist, Rep: i})
			}
		}
	} else {
		n := c.N(200, 4000)
		chunks := c.N(16, 64)
		for i := 0; i < chunks; i++ {
			specs = append(specs, spec{From: i * n / chunks, To: (i + 1) * n / chunks, Fixed: i == 0})
		}
		// hand-over scenarios (handover_test.go)
		idx := 0
		ho := func(kind, variant string, n, spread int) {
			store := []string{"mem", "disk", "disk0"}[idx%3]
			specs = append(specs, spec{HO: &hoSpec{Kind: kind, Variant: variant, N: n, Store: store, Idx: idx, Spread: spread}})
			idx++
		}
		racy, per := c.N(2, 8), c.N(250, 1000)
		for _, kind := range []string{"events", "info"} {
			for i := 0; i < racy; i++ {
				if kind == "info" && i%2 == 1 {
					continue
				}
				ho(kind, "aligned", per, []int{0, 300, 100, 1000}[i%4])
				ho(kind, "free", per, []int{300, 0, 1000, 100}[i%4])
			}
			ho(kind, "hold-until-subscribed", c.N(100, 400), 0)
			ho(kind, "subscribe-after-unsubscribed", c.N(100, 400), 0)
			ho(kind, "sequential", c.N(30, 120), 0)
			ho(kind, "two-swamps", c.N(30, 120), 0)
		}
	}
	res := c.Fanout(specs, rig.FanoutOpts{Par: 16, Timeout: 4 * time.Minute})
	other := 0
	for _, r := range res {
		sp := r.Spec.(spec)
		for _, rr := range r.Races {
			onStream := strings.Contains(rr.Text, "c19.(*fakeStream)")
			onPath := strings.Contains(rr.Text, "SubscribeToEvents") || strings.Contains(rr.Text, "eventCallbackFunction") || strings.Contains(rr.Text, "sendEventToHydra") || strings.Contains(rr.Text, "sendDeletedEventToClient")
			switch {
			case onStream:
				c.Violate("race:stream:"+rr.Sig, "the race detector reports two unsynchronised Send calls on one subscriber's stream: "+rr.Entry, map[string]any{"spec": sp, "report": rr.Text})
			case onPath:
				c.Violate("race:event-path:"+rr.Sig, "data race on the event delivery path: "+rr.Entry, map[string]any{"spec": sp, "report": rr.Text})
			default:
				other++
				c.Seen("race_signatures_outside_event_path", rr.Sig)
			}
		}
		switch {
		case r.TimedOut:
			c.Inconclusive(fmt.Sprintf("child %d-%d timed out (watchdog), log %s", sp.From, sp.To, r.LogPath))
		case len(r.Fatal) > 0:
			line := digits.ReplaceAllString(r.Fatal[0], "N")
			if crashOnEventPath(r.LogPath) {
				c.Violate("child-crash:event-path:"+trunc(line, 100), fmt.Sprintf("child process died while delivering an event: %v (log %s)", r.Fatal, r.LogPath), map[string]any{"spec": sp})
			} else {
				// a crash of the engine elsewhere (e.g. concurrent map access in an index build) is
				// decided by the crash-freedom property; here the child's histories are simply lost
				c.Seen("child_crashes_outside_event_path", trunc(line, 100))
				c.Inconclusive(fmt.Sprintf("child %d-%d died outside the event path: %s (log %s)", sp.From, sp.To, trunc(line, 80), r.LogPath))
			}
		case r.NoPartial || (r.ExitErr != nil && len(r.Races) == 0):
			c.Inconclusive(fmt.Sprintf("child %d-%d ended without a verdict: %v, log %s", sp.From, sp.To, r.ExitErr, r.LogPath))
		}
	}
	c.Extra("races_outside_event_path", other)
	c.Extra("hooks", []string{hookUnsubEvents, hookUnsubInfo})
	c.MinNontrivial = c.N(60, 1200)
}
