package c19

import (
	"testing"

	hydrapb "github.com/hydraide/hydraide/sdk/go/hydraidego/v3/hydraidepbgo"
	"google.golang.org/protobuf/types/known/timestamppb"
)

// Two requests of one writer that produce equal events, seen by a subscriber that joined in the
// middle of the round: the event must be attributed to the later request, not reported as
// "event of a later request first".
func TestOracleAttributionOfEqualEvents(t *testing.T) {
	one := int64(1)
	a := "a"
	ev := func(seq int, key string, tr *hydrapb.Treasure) rec {
		tr.Key, tr.IsExist = key, true
		return rec{Seq: seq, Msg: &hydrapb.SubscribeToEventsResponse{SwampName: "sw", Status: hydrapb.Status_NEW, Treasure: tr,
			OldTreasure: &hydrapb.Treasure{}, DeletedTreasure: &hydrapb.Treasure{}, EventTime: timestamppb.New(timestamppb.Now().AsTime())}}
	}
	execs := []*exec{
		{Idx: 0, Op: op{K: "inc", Key: "n0", D: 1}, Val: "I:1", Changed: true},
		{Idx: 1, Op: op{K: "del", Keys: []string{"s1", "n0"}}, Deleted: []string{"n0"}},
		{Idx: 2, Op: op{K: "set", Key: "s9"}, Val: "S:a", Status: "NEW", Changed: true},
		{Idx: 3, Op: op{K: "inc", Key: "n0", D: 1}, Val: "I:1", Changed: true},
	}
	rc := &roundCheck{swamp: "sw", required: false, tol: 1 << 62, execs: execs, state0: map[string]mval{}, stateF: map[string]mval{},
		events: []rec{ev(0, "s9", &hydrapb.Treasure{StringVal: &a}), ev(1, "n0", &hydrapb.Treasure{Int64Val: &one})}}
	rc.run()
	for _, f := range rc.out {
		t.Errorf("unexpected finding %s: %s", f.Sig, f.What)
	}
	// the genuinely reordered stream is still reported (required window: all four changes seen)
	del := rec{Seq: 1, Msg: &hydrapb.SubscribeToEventsResponse{SwampName: "sw", Status: hydrapb.Status_DELETED, Treasure: &hydrapb.Treasure{},
		OldTreasure: &hydrapb.Treasure{}, DeletedTreasure: &hydrapb.Treasure{Key: "n0", IsExist: true, Int64Val: &one}, EventTime: timestamppb.New(timestamppb.Now().AsTime())}}
	for _, e := range execs {
		e.T0, e.T1 = 0, 1<<62
	}
	rc = &roundCheck{swamp: "sw", required: true, tol: 1 << 62, execs: execs, state0: map[string]mval{}, stateF: map[string]mval{"n0": {Val: "I:1"}, "s9": {Val: "S:a"}},
		events: []rec{ev(0, "n0", &hydrapb.Treasure{Int64Val: &one}), del, ev(2, "n0", &hydrapb.Treasure{Int64Val: &one}), ev(3, "s9", &hydrapb.Treasure{StringVal: &a})}}
	rc.run()
	found := false
	for _, f := range rc.out {
		if f.Sig == "order:single-writer:event-of-later-request-first" {
			found = true
		}
	}
	if !found {
		t.Errorf("a stream in which the event of request 2 comes after the event of request 3 was not reported: %v", rc.out)
	}
}

// The stream of /verif/replays/C19/thorough-seed2-000-d3f2aa.json: the UPDATED event of a stale
// record object overtakes the NEW event of the re-created object it names as OldTreasure.
func TestOracleStaleObjectUpdateBeforeNew(t *testing.T) {
	b := func(s string) *hydrapb.Treasure {
		return &hydrapb.Treasure{Key: "d1", IsExist: true, BytesVal: []byte(s)}
	}
	mk := func(seq int, st hydrapb.Status_Code, nw, old, del *hydrapb.Treasure) rec {
		e := &hydrapb.Treasure{}
		if nw == nil {
			nw = e
		}
		if old == nil {
			old = e
		}
		if del == nil {
			del = e
		}
		return rec{Seq: seq, Msg: &hydrapb.SubscribeToEventsResponse{SwampName: "sw", Status: st, Treasure: nw, OldTreasure: old, DeletedTreasure: del, EventTime: timestamppb.Now()}}
	}
	v := func(s string) string { return valOf(b(s)) }
	execs := []*exec{
		{Lane: 0, Idx: 0, Op: op{K: "patch", Key: "d1"}, Val: v("39"), Status: "CREATED", Changed: true},
		{Lane: 0, Idx: 2, Op: op{K: "shiftKeys", Keys: []string{"d1"}}, Shifted: []kv{{"d1", v("38")}}},
		{Lane: 0, Idx: 3, Op: op{K: "patch", Key: "d1"}, Val: v("37"), Status: "CREATED", Changed: true},
		{Lane: 1, Idx: 2, Op: op{K: "patch", Key: "d1"}, Val: v("38"), Status: "CREATED", Changed: true},
		{Lane: 2, Idx: 2, Op: op{K: "patch", Key: "d1"}, Val: v("36"), Status: "PATCHED", Changed: true},
		{Lane: 4, Idx: 0, Op: op{K: "del", Keys: []string{"d1"}}, Deleted: []string{"d1"}},
	}
	for _, e := range execs {
		e.T1 = 1 << 62
	}
	rc := &roundCheck{swamp: "sw", required: true, conc: true, tol: 0, execs: execs, state0: map[string]mval{}, stateF: map[string]mval{"d1": {Val: v("37")}},
		events: []rec{mk(0, hydrapb.Status_NEW, b("39"), nil, nil), mk(1, hydrapb.Status_DELETED, nil, nil, b("39")), mk(2, hydrapb.Status_UPDATED, b("36"), b("38"), nil),
			mk(3, hydrapb.Status_NEW, b("38"), nil, nil), mk(4, hydrapb.Status_DELETED, nil, nil, b("38")), mk(5, hydrapb.Status_NEW, b("37"), nil, nil)}}
	rc.run()
	if len(rc.out) != 1 || rc.out[0].Sig != "payload:UPDATED:old-value:patch:other:concurrent-writers" {
		t.Errorf("findings: %+v", rc.out)
	}
}
