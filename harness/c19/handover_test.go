package c19

import (
	"context"
	"fmt"
	"math/rand/v2"
	"runtime"
	"sync"
	"sync/atomic"
	"testing"
	"testing/synctest"
	"time"

	"github.com/hydraide/hydraide/app/verifhook"
	hydrapb "github.com/hydraide/hydraide/sdk/go/hydraidego/v3/hydraidepbgo"
	"google.golang.org/grpc/metadata"

	"verifharness/rig"
)

// Hand-over scenarios: the only subscriber of a swamp goes away (its stream context is cancelled,
// the real SubscribeToEvents / SubscribeToInfo handler unsubscribes it) while another client
// subscribes to the same swamp. Whatever the interleaving, once the new handler is blocked waiting
// for the end of its stream and the old handler has returned, every later create / update /
// delete / shift must reach the new subscriber exactly once, in order (events), and every change
// of the number of records must be reported with the new count (info).
//
//	hold-until-subscribed        the unsubscriber is held at the hook (after it left the subscriber
//	                             map, before it decides whether to switch sending off) until the new
//	                             subscription has completely returned
//	subscribe-after-unsubscribed the new client subscribes after the old handler has returned
//	aligned                      the unsubscriber is held at the hook, the subscriber just before its
//	                             call; both are released a random few hundred nanoseconds apart
//	free                         no hook: cancel and subscribe are simply started together
//	sequential                   subscribe, write, unsubscribe, write, subscribe again, write
//	two-swamps                   swamps X and Y with one subscriber each; X's subscriber leaves and
//	                             comes back, Y's subscriber must keep receiving
const (
	hookUnsubEvents = "hydra.unsubscribeEvents.afterRemove"
	hookUnsubInfo   = "hydra.unsubscribeInfo.afterRemove"
)

type hoSpec struct {
	Kind    string `json:"kind"`    // events | info
	Variant string `json:"variant"` // see above
	N       int    `json:"n"`       // hand-overs
	Store   string `json:"store"`
	Idx     int    `json:"idx"`
	Spread  int    `json:"spread"` // aligned: the two releases are up to Spread spin steps apart
}

// ---------------------------------------------------------------------------------------------
// fake SubscribeToInfo stream

type infoRec struct {
	Swamp string
	Count uint64
	Gid   int64
}

type fakeInfoStream struct {
	ctx       context.Context
	raw       int
	inflight  atomic.Int32
	overlaps  atomic.Int64
	mu        sync.Mutex
	recs      []infoRec
	ctxOnce   sync.Once
	ctxCalled chan struct{}
}

func (s *fakeInfoStream) SendMsg(m any) error {
	if rawWrite {
		s.raw++
	}
	if s.inflight.Add(1) > 1 {
		s.overlaps.Add(1)
	}
	if msg, ok := m.(*hydrapb.SubscribeToInfoResponse); ok && msg != nil {
		s.mu.Lock()
		s.recs = append(s.recs, infoRec{Swamp: msg.GetSwampName(), Count: msg.GetAllElements(), Gid: goid()})
		s.mu.Unlock()
	}
	s.inflight.Add(-1)
	return nil
}
func (s *fakeInfoStream) Send(m *hydrapb.SubscribeToInfoResponse) error { return s.SendMsg(m) }
func (s *fakeInfoStream) SetHeader(metadata.MD) error                   { return nil }
func (s *fakeInfoStream) SendHeader(metadata.MD) error                  { return nil }
func (s *fakeInfoStream) SetTrailer(metadata.MD)                        {}
func (s *fakeInfoStream) RecvMsg(any) error                             { return nil }
func (s *fakeInfoStream) Context() context.Context {
	s.ctxOnce.Do(func() { close(s.ctxCalled) })
	return s.ctx
}
func (s *fakeInfoStream) snapshot() []infoRec {
	s.mu.Lock()
	defer s.mu.Unlock()
	return append([]infoRec(nil), s.recs...)
}

var _ hydrapb.HydraideService_SubscribeToInfoServer = (*fakeInfoStream)(nil)

// ---------------------------------------------------------------------------------------------

type hoSub struct {
	kind   string
	ev     *fakeStream
	info   *fakeInfoStream
	cancel context.CancelFunc
	done   chan struct{}
	err    error
	ready  atomic.Bool // its goroutine runs and waits for the gate
}

func (s *hoSub) n() int {
	if s.kind == "info" {
		return len(s.info.snapshot())
	}
	return s.ev.length()
}

// openHO starts the real handler in its own goroutine. With a gate the goroutine first spins
// until the gate opens, so that the call itself starts at a chosen moment.
func (x *runner) openHO(kind string, gate *atomic.Bool) *hoSub {
	ctx, cancel := context.WithCancel(context.Background())
	s := &hoSub{kind: kind, cancel: cancel, done: make(chan struct{})}
	if kind == "info" {
		s.info = &fakeInfoStream{ctx: ctx, ctxCalled: make(chan struct{})}
	} else {
		s.ev = newFakeStream(ctx)
	}
	go func() {
		if gate != nil {
			s.ready.Store(true)
			for i := 0; !gate.Load() && i < 2e9; i++ {
			}
		}
		if kind == "info" {
			s.err = x.r.GW.SubscribeToInfo(&hydrapb.SubscribeToInfoRequest{IslandID: x.island, SwampName: x.swamp}, s.info)
		} else {
			s.err = x.r.GW.SubscribeToEvents(&hydrapb.SubscribeToEventsRequest{IslandID: x.island, SwampName: x.swamp}, s.ev)
			s.ev.returned.Store(true)
		}
		close(s.done)
	}()
	return s
}

func hoDone(s *hoSub) bool {
	select {
	case <-s.done:
		return true
	default:
		return false
	}
}

var spinSink atomic.Int64

func spin(n int) {
	for i := 0; i < n; i++ {
		spinSink.Add(1)
	}
}

type hoRun struct {
	c    *rig.Check
	sp   *hoSpec
	x    *runner // swamp X
	y    *runner // swamp Y (two-swamps)
	rnd  *rand.Rand
	tag  string
	hook string

	handovers, checkedWrites, hookHeld int
	findings                           []finding
	nSig                               map[string]int
	inconc                             string
}

func (h *hoRun) fail(sig, what string, details any) {
	h.add(finding{Sig: sig, What: what, Round: h.handovers, Details: details})
}

// add keeps the first few findings of a signature and counts the rest.
func (h *hoRun) add(fs ...finding) {
	if h.nSig == nil {
		h.nSig = map[string]int{}
	}
	for _, f := range fs {
		h.nSig[f.Sig]++
		if h.nSig[f.Sig] <= 3 {
			h.findings = append(h.findings, f)
		}
	}
}

var hoOps = [][]op{
	{{K: "set", Key: "s0"}, {K: "set", Key: "s0"}, {K: "del", Keys: []string{"s0"}}},
	{{K: "inc", Key: "n0", D: 1}, {K: "set", Key: "s1"}, {K: "inc", Key: "n0", D: 2}, {K: "shiftKeys", Keys: []string{"s1", "n0"}}},
	{{K: "patch", Key: "d0"}, {K: "patch", Key: "d0"}, {K: "get", Keys: []string{"d0"}}, {K: "shiftKeys", Keys: []string{"d0"}}},
	{{K: "set", Key: "e0", Exp: -3600e9}, {K: "setIdent", Key: "e0"}, {K: "shiftExp"}},
	{{K: "set", Key: "s2"}, {K: "del", Keys: []string{"s2", "zz"}}},
}

// writeAndCheck performs a few writes on x's swamp as a single writer and judges what the
// subscriber s received for them. expectNothing: s has unsubscribed (its handler has returned).
func (h *hoRun) writeAndCheck(x *runner, s *hoSub, expectNothing bool) {
	ops := hoOps[h.rnd.IntN(len(hoOps))]
	before := s.n()
	state0 := x.readState()
	lv := &laneView{known: func(string) bool { return true }, m: map[string]mval{}}
	for k, v := range state0 {
		lv.m[k] = v
	}
	var execs []*exec
	var counts []uint64
	cnt := uint64(len(state0))
	t0 := x.now()
	for oi, o := range ops {
		_, was := lv.m[o.Key]
		e := x.do(h.handovers, 0, oi, o, lv)
		if e == nil {
			continue
		}
		execs = append(execs, e)
		if e.Dev != "" && h.inconc == "" {
			h.inconc = "response deviates from the key-value model (other properties decide that): " + e.Dev
		}
		switch {
		case e.Changed && !e.Silent && !was && o.Key != "":
			cnt++
			counts = append(counts, cnt)
		}
		for range e.Deleted {
			cnt--
			counts = append(counts, cnt)
		}
		for range e.Shifted {
			cnt--
			counts = append(counts, cnt)
		}
	}
	t1 := x.now()
	synctest.Wait()
	stateF := x.readState()
	synctest.Wait()
	h.checkedWrites += len(execs)
	if expectNothing {
		if got := s.n() - before; got != 0 {
			h.fail("window:"+s.kind+"-after-unsubscribe:"+h.tag, fmt.Sprintf("%d message(s) were sent on a stream whose handler had returned", got), nil)
		}
		return
	}
	if s.kind == "info" {
		recs := s.info.snapshot()[before:]
		var got []uint64
		for _, r := range recs {
			if r.Swamp != x.swamp {
				h.fail("info:swamp-name:"+h.tag, fmt.Sprintf("info message for swamp %q on a subscription to %q", r.Swamp, x.swamp), nil)
			}
			got = append(got, r.Count)
		}
		if fmt.Sprint(got) != fmt.Sprint(counts) {
			class := "other"
			switch {
			case len(got) == 0:
				class = "nothing-received"
			case len(got) < len(counts):
				class = "too-few"
			case len(got) > len(counts):
				class = "too-many"
			}
			var reqs []string
			for _, e := range execs {
				reqs = append(reqs, fmt.Sprintf("%s key=%s%v -> %s", e.label(), e.Op.Key, e.Op.Keys, e.Status))
			}
			h.fail("info:counts:"+class+":"+h.tag, fmt.Sprintf("the info subscriber got the element counts %v for requests that changed the number of records to %v (from %d)", got, counts, len(state0)),
				map[string]any{"requests": reqs})
		}
		if n := s.info.overlaps.Load(); n > 0 {
			h.fail("info:overlapping-sends-on-one-stream:"+h.tag, fmt.Sprintf("%d Send calls on the info stream overlapped", n), nil)
		}
		return
	}
	rc := &roundCheck{required: true, swamp: x.swamp, round: h.handovers, subTag: h.tag, tol: 0, t0: t0, t1: t1, execs: execs, state0: state0, stateF: stateF, events: s.ev.snapshot()[before:]}
	rc.run()
	h.add(rc.out...)
	if n := s.ev.overlaps.Load(); n > 0 {
		h.fail("send:overlapping-sends-on-one-stream", fmt.Sprintf("%d Send calls overlapped although there was one writer", n), nil)
	}
}

func (h *hoRun) settled(a, b *hoSub) bool {
	synctest.Wait()
	if a != nil && !hoDone(a) {
		h.inconc = "the old handler did not return after its stream context was cancelled"
		return false
	}
	if b != nil && hoDone(b) {
		h.inconc = fmt.Sprintf("the new handler returned at once: %v", b.err)
		return false
	}
	return true
}

// handOver replaces subscriber a of x's swamp by a new one in the given variant and returns it.
func (h *hoRun) handOver(x *runner, a *hoSub, variant string) *hoSub {
	var b *hoSub
	switch variant {
	case "subscribe-after-unsubscribed":
		a.cancel()
		if !h.settled(a, nil) {
			return nil
		}
		b = x.openHO(h.sp.Kind, nil)
	case "hold-until-subscribed":
		gate := make(chan struct{})
		verifhook.Set(h.hook, func(...any) { <-gate })
		a.cancel()
		synctest.Wait() // the unsubscriber is parked at the hook (or there is no such hook)
		held := !hoDone(a)
		b = x.openHO(h.sp.Kind, nil)
		synctest.Wait() // the new subscription has completely returned
		verifhook.Set(h.hook, nil)
		close(gate)
		if held {
			h.hookHeld++
		}
	case "aligned":
		var atHook, relA, goB atomic.Bool
		verifhook.Set(h.hook, func(...any) {
			atHook.Store(true)
			for i := 0; !relA.Load() && i < 2e9; i++ {
			}
		})
		a.cancel()
		for i := 0; !atHook.Load() && !hoDone(a) && i < 1e7; i++ {
			runtime.Gosched()
		}
		b = x.openHO(h.sp.Kind, &goB)
		for i := 0; !b.ready.Load() && i < 1e7; i++ {
			runtime.Gosched()
		}
		if atHook.Load() {
			h.hookHeld++
		}
		d := h.rnd.IntN(2*h.sp.Spread+1) - h.sp.Spread
		if d >= 0 {
			goB.Store(true)
			spin(d)
			relA.Store(true)
		} else {
			relA.Store(true)
			spin(-d)
			goB.Store(true)
		}
		synctest.Wait()
		verifhook.Set(h.hook, nil)
	default: // free
		var goB atomic.Bool
		b = x.openHO(h.sp.Kind, &goB)
		for i := 0; !b.ready.Load() && i < 1e7; i++ {
			runtime.Gosched()
		}
		if h.rnd.IntN(2) == 0 {
			a.cancel()
			spin(h.rnd.IntN(h.sp.Spread + 1))
			goB.Store(true)
		} else {
			goB.Store(true)
			spin(h.rnd.IntN(h.sp.Spread + 1))
			a.cancel()
		}
	}
	if !h.settled(a, b) {
		return nil
	}
	h.handovers++
	return b
}

func (h *hoRun) run() {
	sp := h.sp
	x := h.x
	v := "pin"
	if _, err := x.setReq(pinKey, &hydrapb.KeyValuePair{StringVal: &v}, true, true); err != nil {
		h.inconc = "pin write failed: " + err.Error()
		return
	}
	if h.y != nil {
		_, _ = h.y.setReq(pinKey, &hydrapb.KeyValuePair{StringVal: &v}, true, true)
	}
	a := x.openHO(sp.Kind, nil)
	if !h.settled(nil, a) {
		return
	}
	switch sp.Variant {
	case "sequential":
		for i := 0; i < sp.N && h.inconc == ""; i++ {
			h.writeAndCheck(x, a, false)
			a.cancel()
			if !h.settled(a, nil) {
				return
			}
			h.writeAndCheck(x, a, true)
			if i%3 == 2 { // sometimes across an idle eviction of the swamp
				time.Sleep(5 * time.Second)
			}
			a = x.openHO(sp.Kind, nil)
			if !h.settled(nil, a) {
				return
			}
			h.handovers++
		}
		h.writeAndCheck(x, a, false)
	case "two-swamps":
		y := h.y
		by := y.openHO(sp.Kind, nil)
		if !h.settled(nil, by) {
			return
		}
		for i := 0; i < sp.N && h.inconc == ""; i++ {
			h.writeAndCheck(y, by, false)
			a.cancel() // X's only subscriber leaves
			if !h.settled(a, nil) {
				return
			}
			h.writeAndCheck(y, by, false) // … which must not silence Y
			h.writeAndCheck(x, a, true)
			a = x.openHO(sp.Kind, nil)
			if !h.settled(nil, a) {
				return
			}
			h.handovers++
			h.writeAndCheck(x, a, false)
			h.writeAndCheck(y, by, false)
		}
		by.cancel()
	default:
		for i := 0; i < sp.N && h.inconc == ""; i++ {
			b := h.handOver(x, a, sp.Variant)
			if b == nil {
				return
			}
			old := a.n()
			h.writeAndCheck(x, b, false)
			if a.n() != old {
				h.fail("window:"+sp.Kind+"-after-unsubscribe:"+h.tag, "the subscriber that had unsubscribed still got messages", nil)
			}
			a = b
		}
	}
	a.cancel()
	synctest.Wait()
}

func runHandover(t *testing.T, c *rig.Check, sp *hoSpec, sen *rig.Sentinel) *hoRun {
	root := rig.TempRoot("c19ho")
	defer rig.RemoveAll(root)
	h := &hoRun{c: c, sp: sp, rnd: c.Rand(1000000 + sp.Idx), tag: "hand-over:" + sp.Variant, hook: hookUnsubEvents}
	if sp.Kind == "info" {
		h.hook = hookUnsubInfo
	}
	verifhook.Reset()
	t.Run(fmt.Sprintf("ho%d", sp.Idx), func(t *testing.T) {
		synctest.Test(t, func(t *testing.T) {
			r := rig.New(rig.Options{Root: root})
			h.x = newRunner(c, &hist{Idx: 100000 + 2*sp.Idx, Mode: "bubble", Store: sp.Store}, r, true)
			if sp.Variant == "two-swamps" {
				h.y = newRunner(c, &hist{Idx: 100001 + 2*sp.Idx, Mode: "bubble", Store: sp.Store}, r, true)
			}
			h.run()
			verifhook.Reset()
			r.Stop()
			time.Sleep(2 * time.Minute)
		})
	})
	class := "hand-over:" + sp.Kind + ":" + sp.Variant
	c.Case(rig.Dump(sp), h.inconc == "" && h.handovers > 0 && h.checkedWrites > 0)
	c.Sample(sp)
	c.Seen("history_classes", class)
	c.Count("handovers_"+sp.Kind+"_"+sp.Variant, int64(h.handovers))
	c.Count("handover_requests_checked", int64(h.checkedWrites))
	c.Count("handovers_with_the_unsubscriber_held_at_the_hook", int64(h.hookHeld))
	if (sp.Variant == "aligned" || sp.Variant == "hold-until-subscribed") && h.handovers > 0 && h.hookHeld == 0 {
		c.Inconclusive("hook " + h.hook + " was never reached by an unsubscribing handler")
	}
	if h.inconc != "" {
		c.Inconclusive(h.inconc)
	}
	sen.Drain()
	first := map[string]finding{}
	count := h.nSig
	var order []string
	for _, f := range h.findings {
		if _, ok := first[f.Sig]; !ok {
			first[f.Sig] = f
			order = append(order, f.Sig)
		}
	}
	for _, sig := range order {
		f := first[sig]
		c.Violate(sig, fmt.Sprintf("%s [%s, after hand-over %d of %d; %d such finding(s)]", f.What, class, f.Round, h.handovers, count[sig]),
			map[string]any{"handover": sp, "finding": f, "count": count[sig]})
	}
	return h
}
