package c19

import (
	"bytes"
	"context"
	"os"
	"runtime"
	"strconv"
	"sync"
	"sync/atomic"
	"time"

	hydrapb "github.com/hydraide/hydraide/sdk/go/hydraidego/v3/hydraidepbgo"
	"google.golang.org/grpc/metadata"
	"google.golang.org/protobuf/proto"
)

// rec is one message a subscriber's stream was asked to send.
type rec struct {
	Seq     int
	Gid     int64 // goroutine that called Send
	Overlap bool  // another Send on the same stream was in flight
	Late    bool  // the handler had already returned
	At      int64 // time.Now() (virtual in a bubble) when Send was entered
	Msg     *hydrapb.SubscribeToEventsResponse
}

// fakeStream is the server side of one SubscribeToEvents call. Like a real gRPC server stream it
// keeps per-stream state that is not protected against concurrent Send calls (raw): gRPC forbids
// calling Send/SendMsg on one stream from two goroutines at the same time. The atomic in-flight
// counter observes such an overlap directly, the race detector observes two Sends that are not
// ordered by any synchronisation.
type fakeStream struct {
	ctx context.Context

	raw int // deliberately unsynchronised (transport state stand-in)

	inflight atomic.Int32
	overlaps atomic.Int64
	returned atomic.Bool

	mu   sync.Mutex
	recs []rec

	ctxOnce   sync.Once
	ctxCalled chan struct{}
}

// rawWrite can be switched off (C19_NO_RAW=1) to run the reproducers under -race without the
// deliberate race on the stream ending every bubble.
var rawWrite = os.Getenv("C19_NO_RAW") == ""

func newFakeStream(ctx context.Context) *fakeStream {
	return &fakeStream{ctx: ctx, ctxCalled: make(chan struct{})}
}

func goid() int64 {
	var b [64]byte
	n := runtime.Stack(b[:], false)
	f := bytes.Fields(b[:n])
	if len(f) < 2 {
		return -1
	}
	v, _ := strconv.ParseInt(string(f[1]), 10, 64)
	return v
}

func (s *fakeStream) SendMsg(m any) error {
	if rawWrite {
		s.raw++ // what the transport of a real stream does without a lock
	}
	n := s.inflight.Add(1)
	ov := n > 1
	var cp *hydrapb.SubscribeToEventsResponse
	if msg, ok := m.(*hydrapb.SubscribeToEventsResponse); ok && msg != nil {
		cp = proto.Clone(msg).(*hydrapb.SubscribeToEventsResponse)
	}
	g := goid()
	// the position of a message in the stream is the order in which the Send calls were made
	s.mu.Lock()
	idx := len(s.recs)
	s.recs = append(s.recs, rec{Seq: idx, Gid: g, Overlap: ov, Late: s.returned.Load(), At: time.Now().UnixNano(), Msg: cp})
	s.mu.Unlock()
	// a real Send takes a while (framing, flow control); give a concurrent sender the chance to
	// arrive while this one is still inside
	for i := 0; i < 3; i++ {
		runtime.Gosched()
		if s.inflight.Load() > 1 {
			ov = true
		}
	}
	if ov {
		s.overlaps.Add(1)
		s.mu.Lock()
		s.recs[idx].Overlap = true
		s.mu.Unlock()
	}
	s.inflight.Add(-1)
	return nil
}

func (s *fakeStream) Send(m *hydrapb.SubscribeToEventsResponse) error { return s.SendMsg(m) }
func (s *fakeStream) SetHeader(metadata.MD) error                     { return nil }
func (s *fakeStream) SendHeader(metadata.MD) error                    { return nil }
func (s *fakeStream) SetTrailer(metadata.MD)                          {}
func (s *fakeStream) RecvMsg(any) error                               { return nil }
func (s *fakeStream) Context() context.Context {
	s.ctxOnce.Do(func() { close(s.ctxCalled) })
	return s.ctx
}

var _ hydrapb.HydraideService_SubscribeToEventsServer = (*fakeStream)(nil)

func (s *fakeStream) length() int {
	s.mu.Lock()
	defer s.mu.Unlock()
	return len(s.recs)
}

func (s *fakeStream) snapshot() []rec {
	s.mu.Lock()
	defer s.mu.Unlock()
	return append([]rec(nil), s.recs...)
}
