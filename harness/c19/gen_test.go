package c19

import (
	"fmt"
	"math/rand/v2"

	"verifharness/rig"
)

// op is one request of a writer (or reader).
//
//	set        Set, unique value (CreateIfNotExist+Overwrite); Exp != 0: with ExpiredAt = now+Exp ns
//	setIdent   Set of exactly the value the key holds (a save that changes nothing)
//	setNoOver  Set with Overwrite=false (changes nothing when the key exists)
//	setNoCreate Set with CreateIfNotExist=false (changes nothing when the key is missing)
//	inc        IncrementInt64 by D
//	incFail    IncrementInt64 whose condition is false (existing key only)
//	patch      PatchTreasures SET v=<unique>, CreateIfNotExist
//	patchNoop  PatchTreasures that leaves the body as it is (DELETE of a missing field / SET of the same value)
//	patchFail  PatchTreasures whose condition is false
//	del        Delete Keys
//	shiftKeys  ShiftByKeys Keys
//	shiftExp   ShiftExpiredTreasures HowMany=D
//	get getAll count exists index   reads
type op struct {
	K    string   `json:"k"`
	Key  string   `json:"key,omitempty"`
	Keys []string `json:"keys,omitempty"`
	Exp  int64    `json:"exp,omitempty"`
	D    int64    `json:"d,omitempty"`
	// client metadata. Set: UAt / CAt = UpdatedAt / CreatedAt sent with the pair: 0 none, 1 the zero
	// timestamp, 2 an instant in 1985, 3 an instant in 2090. Increment / PatchTreasures: MU / MC =
	// ask the server to stamp UpdatedAt / CreatedAt (request metadata), Exp = ExpiredAt.
	UAt int64 `json:"uat,omitempty"`
	CAt int64 `json:"cat,omitempty"`
	MU  bool  `json:"mu,omitempty"`
	MC  bool  `json:"mc,omitempty"`
}

// withMeta lets about a third of the writes carry client metadata.
func withMeta(r *rand.Rand, o op, bubble bool) op {
	if r.IntN(3) != 0 {
		return o
	}
	switch o.K {
	case "set":
		o.UAt, o.CAt = int64(r.IntN(4)), int64(r.IntN(4))
	case "inc", "patch":
		if bubble { // "now" is only exactly known on the virtual clock
			o.MU, o.MC = r.IntN(3) != 0, r.IntN(2) == 0
		}
		if r.IntN(4) == 0 {
			o.Exp = pick(r, expChoices)
		}
	}
	return o
}

type subAct struct {
	Sub int    `json:"sub"`
	Act string `json:"act"` // open | close
}

type round struct {
	SleepNs int64    `json:"sleep_ns"`
	Pre     []subAct `json:"pre,omitempty"`    // done (and settled) before the round's writes start
	During  []subAct `json:"during,omitempty"` // started concurrently with the round's writes
	Lanes   [][]op   `json:"lanes"`
}

type hist struct {
	Idx    int     `json:"idx"`
	Mode   string  `json:"mode"`  // bubble | real
	Store  string  `json:"store"` // mem | disk | disk0
	Conc   bool    `json:"conc"`
	Subs   int     `json:"subs"`
	Rounds []round `json:"rounds"`
}

const maxLanes = 6

var (
	sharedStr = []string{"s0", "s1", "s2"}
	sharedExp = []string{"e0", "e1"}
	sharedInt = []string{"n0", "n1"}
	sharedDoc = []string{"d0", "d1"}
)

const pinKey = "pin"

func privStr(l int) string { return fmt.Sprintf("ps%d", l) }
func privInt(l int) string { return fmt.Sprintf("pn%d", l) }
func privDoc(l int) string { return fmt.Sprintf("pd%d", l) }

func allKeys() []string {
	var out []string
	out = append(out, sharedStr...)
	out = append(out, sharedExp...)
	out = append(out, sharedInt...)
	out = append(out, sharedDoc...)
	for l := 0; l < maxLanes; l++ {
		out = append(out, privStr(l), privInt(l), privDoc(l))
	}
	out = append(out, pinKey)
	return out
}

func family(key string) string {
	switch key[0] {
	case 's', 'e':
		return "str"
	case 'n':
		return "int"
	case 'd':
		return "doc"
	case 'p':
		if key == pinKey {
			return "str"
		}
		switch key[1] {
		case 's':
			return "str"
		case 'n':
			return "int"
		case 'd':
			return "doc"
		}
	}
	return "str"
}

func isPrivateOf(key string, lane int) bool {
	return key == privStr(lane) || key == privInt(lane) || key == privDoc(lane)
}

func pick[T any](r *rand.Rand, xs []T) T { return xs[r.IntN(len(xs))] }

var expChoices = []int64{-3600e9, 1500e6 + 7, 3600e9 + 7, -1e6 - 7}

var sleepChoices = []int64{1e6, 250e6, 1200e6, 3500e6, 11e9}

func pickKeys(r *rand.Rand, pool []string, n int) []string {
	seen := map[string]bool{}
	var out []string
	for len(out) < n {
		k := pick(r, pool)
		if !seen[k] {
			seen[k] = true
			out = append(out, k)
		}
		if len(seen) == len(pool) {
			break
		}
	}
	return out
}

func readOp(r *rand.Rand, pool []string) op {
	switch r.IntN(5) {
	case 0:
		return op{K: "get", Keys: pickKeys(r, pool, 1+r.IntN(3))}
	case 1:
		return op{K: "getAll"}
	case 2:
		return op{K: "count"}
	case 3:
		return op{K: "exists", Key: pick(r, pool)}
	}
	return op{K: "index", D: int64(r.IntN(3))}
}

// genOpOnKey makes an op of any kind that fits the key's family (used where the lane is the
// only writer of the key in the round).
func genOpOnKey(r *rand.Rand, key string, pool []string) op {
	x := r.IntN(100)
	if x < 10 {
		return op{K: "del", Keys: []string{key}}
	}
	if x < 18 {
		return op{K: "shiftKeys", Keys: []string{key}}
	}
	switch family(key) {
	case "str":
		switch {
		case x < 50:
			o := op{K: "set", Key: key}
			if key[0] == 'e' {
				o.Exp = pick(r, expChoices)
			}
			return o
		case x < 72:
			return op{K: "setIdent", Key: key}
		case x < 84:
			return op{K: "setNoOver", Key: key}
		case x < 92:
			return op{K: "setNoCreate", Key: key}
		}
	case "int":
		switch {
		case x < 50:
			return op{K: "inc", Key: key, D: int64(1 + r.IntN(3))}
		case x < 62:
			return op{K: "set", Key: key}
		case x < 78:
			return op{K: "setIdent", Key: key}
		case x < 92:
			return op{K: "incFail", Key: key, D: 1}
		}
	case "doc":
		switch {
		case x < 52:
			return op{K: "patch", Key: key}
		case x < 74:
			return op{K: "patchNoop", Key: key, D: int64(r.IntN(2))}
		case x < 92:
			return op{K: "patchFail", Key: key}
		}
	}
	return readOp(r, pool)
}

// genSharedOp makes an op on a key that other lanes may write in the same round: only kinds
// whose response tells what happened.
//
// expLane / noExp: in some rounds only one lane (expLane) touches the expiring keys e*, the others
// (noExp) stay away from them. ShiftExpiredTreasures is never issued next to other writers: it
// can deadlock the engine against a save or delete of an expiring key (beacon lock vs record
// guard, taken in opposite orders) and its cold index build iterates the record map while they
// write it (fatal error). Both are decided by other properties.
func genSharedOp(r *rand.Rand, pool []string, expLane, noExp bool) op {
	x := r.IntN(100)
	delPool := append(append([]string{}, sharedStr...), sharedDoc...)
	setPool := append([]string{}, sharedStr...)
	if !noExp {
		delPool = append(delPool, sharedExp...)
		setPool = append(setPool, sharedExp...)
	}
	if x >= 86 && x < 92 {
		// (no ShiftExpired next to other writers at all: its cold index build iterates the
		// record map while they write it - a crash that other properties decide)
		x = r.IntN(86)
	}
	switch {
	case x < 30:
		k := pick(r, setPool)
		o := op{K: "set", Key: k}
		if k[0] == 'e' {
			o.Exp = pick(r, expChoices)
		}
		return o
	case x < 48:
		return op{K: "inc", Key: pick(r, sharedInt), D: 1}
	case x < 62:
		return op{K: "patch", Key: pick(r, sharedDoc)}
	case x < 74:
		return op{K: "del", Keys: pickKeys(r, delPool, 1+r.IntN(2))}
	case x < 86:
		return op{K: "shiftKeys", Keys: pickKeys(r, delPool, 1+r.IntN(3))}
	case x < 92:
		return op{K: "shiftExp", D: int64(r.IntN(3))}
	}
	o := readOp(r, pool)
	if o.K == "index" { // a cold index build next to writers: see above
		o = op{K: "getAll"}
	}
	return o
}

func gen(c *rig.Check, idx int) *hist {
	r := c.Rand(idx)
	h := &hist{Idx: idx}
	switch idx % 10 {
	case 0, 1, 2, 3, 4:
		h.Mode, h.Conc = "bubble", false
	case 5, 6, 7:
		h.Mode, h.Conc = "bubble", true
	default:
		h.Mode, h.Conc = "real", true
	}
	switch x := r.IntN(10); {
	case x < 3:
		h.Store = "mem"
	case x < 8:
		h.Store = "disk"
	default:
		h.Store = "disk0"
	}
	nR := 3 + r.IntN(5)
	h.Rounds = make([]round, nR)
	pool := allKeys()
	pool = pool[:len(pool)-1] // never the pin key

	// subscription plan
	nSubs := 1 + r.IntN(3)
	sub := 0
	for s := 0; s < nSubs && sub < 3; s++ {
		openAt := 0
		if s > 0 {
			openAt = r.IntN(nR)
		}
		for sub < 3 {
			during := s > 0 && r.IntN(3) == 0
			if during {
				h.Rounds[openAt].During = append(h.Rounds[openAt].During, subAct{sub, "open"})
			} else {
				h.Rounds[openAt].Pre = append(h.Rounds[openAt].Pre, subAct{sub, "open"})
			}
			id := sub
			sub++
			if r.IntN(2) == 0 {
				break // stays open until the end of the history
			}
			closeDuring := r.IntN(3) == 0
			lo := openAt + 1
			if !during && closeDuring {
				lo = openAt // subscribed before the round, cancelled while it runs
			}
			if lo >= nR {
				break
			}
			closeAt := lo + r.IntN(nR-lo)
			if closeDuring {
				h.Rounds[closeAt].During = append(h.Rounds[closeAt].During, subAct{id, "close"})
			} else {
				h.Rounds[closeAt].Pre = append(h.Rounds[closeAt].Pre, subAct{id, "close"})
			}
			// maybe subscribe again later with a fresh stream
			if closeAt+1 >= nR || r.IntN(2) == 0 {
				break
			}
			openAt = closeAt + 1 + r.IntN(nR-closeAt-1)
		}
	}
	h.Subs = sub

	for ri := range h.Rounds {
		rd := &h.Rounds[ri]
		rd.SleepNs = pick(r, sleepChoices) + int64(r.IntN(1000))*1000
		lanes := 1
		if h.Conc && r.IntN(10) < 7 {
			lanes = 2 + r.IntN(maxLanes-1)
		}
		expRound := r.IntN(4) == 0
		for l := 0; l < lanes; l++ {
			var ops []op
			if lanes == 1 {
				n := 1 + r.IntN(7)
				for i := 0; i < n; i++ {
					if r.IntN(12) == 0 {
						ops = append(ops, op{K: "shiftExp", D: int64(r.IntN(3))})
						continue
					}
					if r.IntN(14) == 0 {
						ops = append(ops, op{K: "del", Keys: pickKeys(r, pool, 2)})
						continue
					}
					// a small working set per history keeps keys being revisited
					k := pool[(r.IntN(6)*5+h.Idx)%len(pool)]
					if r.IntN(3) == 0 {
						k = pick(r, pool)
					}
					ops = append(ops, withMeta(r, genOpOnKey(r, k, pool), h.Mode == "bubble"))
				}
			} else {
				n := 1 + r.IntN(4)
				for i := 0; i < n; i++ {
					if r.IntN(10) < 6 {
						ops = append(ops, withMeta(r, genSharedOp(r, pool, expRound && l == 0, expRound && l != 0), h.Mode == "bubble"))
					} else {
						k := pick(r, []string{privStr(l), privInt(l), privDoc(l)})
						o := genOpOnKey(r, k, pool)
						if o.K == "index" {
							o = op{K: "count"}
						}
						ops = append(ops, withMeta(r, o, h.Mode == "bubble"))
					}
				}
			}
			rd.Lanes = append(rd.Lanes, ops)
		}
	}
	return h
}

// fixedHists are the sequences the property text names explicitly.
func fixedHists() []*hist {
	one := func(ops ...op) round { return round{SleepNs: 1500e6 + 123456, Lanes: [][]op{ops}} }
	h1 := &hist{Idx: -1, Mode: "bubble", Store: "disk", Subs: 1, Rounds: []round{
		{SleepNs: 1e6, Pre: []subAct{{0, "open"}}, Lanes: [][]op{{{K: "set", Key: "s0"}, {K: "set", Key: "s0"}, {K: "setIdent", Key: "s0"}, {K: "get", Keys: []string{"s0"}}}}},
		one(op{K: "inc", Key: "n0", D: 2}, op{K: "inc", Key: "n0", D: 1}, op{K: "incFail", Key: "n0", D: 1}),
		one(op{K: "patch", Key: "d0"}, op{K: "patch", Key: "d0"}, op{K: "patchNoop", Key: "d0"}, op{K: "patchNoop", Key: "d0", D: 1}, op{K: "patchFail", Key: "d0"}),
		one(op{K: "set", Key: "e0", Exp: -3600e9}, op{K: "shiftExp"}, op{K: "shiftKeys", Keys: []string{"s0", "zz"}}, op{K: "del", Keys: []string{"n0", "d0"}}),
		one(op{K: "set", Key: "s1"}),
		one(op{K: "set", Key: "s1", UAt: 2, CAt: 3}, op{K: "set", Key: "s1"}, op{K: "set", Key: "s2", UAt: 3, CAt: 1}, op{K: "set", Key: "s2", UAt: 1}),
		one(op{K: "inc", Key: "n1", D: 1, MU: true, MC: true}, op{K: "patch", Key: "d1", MU: true, Exp: 3600e9 + 7}),
		one(op{K: "inc", Key: "n1", D: 1}, op{K: "patch", Key: "d1"}, op{K: "set", Key: "s1"}, op{K: "set", Key: "s2"}),
	}}
	h2 := &hist{Idx: -2, Mode: "bubble", Store: "mem", Conc: true, Subs: 2, Rounds: []round{
		{SleepNs: 1e6, Pre: []subAct{{0, "open"}, {1, "open"}}, Lanes: [][]op{
			{{K: "set", Key: "s0"}, {K: "inc", Key: "n0", D: 1}, {K: "set", Key: "s1"}, {K: "inc", Key: "n0", D: 1}},
			{{K: "set", Key: "s1"}, {K: "inc", Key: "n0", D: 1}, {K: "set", Key: "s0"}, {K: "inc", Key: "n0", D: 1}},
			{{K: "patch", Key: "d0"}, {K: "inc", Key: "n0", D: 1}, {K: "patch", Key: "d0"}, {K: "inc", Key: "n0", D: 1}},
			{{K: "set", Key: "s2"}, {K: "inc", Key: "n1", D: 1}, {K: "set", Key: "s2"}, {K: "inc", Key: "n1", D: 1}},
		}},
		{SleepNs: 250e6, Pre: []subAct{{1, "close"}}, Lanes: [][]op{
			{{K: "del", Keys: []string{"s0"}}, {K: "set", Key: "s0"}, {K: "shiftKeys", Keys: []string{"s1"}}},
			{{K: "set", Key: "s0"}, {K: "del", Keys: []string{"s0"}}, {K: "set", Key: "s1"}},
		}},
	}}
	return []*hist{h1, h2}
}
