// C18 — at most one live in-memory instance per swamp.
//
// Inside a synctest bubble 3-8 concurrent requests work on ONE swamp name through the real engine
// (rig.New): requests that follow the handler protocol at the engine API (SummonSwamp, BeginVigil,
// optional write through the object, hold, CeaseVigil, re-summon and read back), gateway Set / Get /
// Destroy requests, summons whose context is cancelled while they wait — interleaved with idle
// closes (virtual time) and destroys. Forced variants park chosen summoners for 5 virtual ms at the
// hydra.summon.* points ("A holds the wait-slot, B waits, A finishes, C arrives"). Scenario F5 parks
// the slot owner at hydra.summon.beforeCreate (inside the create section) until a "release" step lets
// it go on; while it is parked, summons whose context is already cancelled (or whose deadline runs out
// while they wait) come and go between one or two further summons of the same name.
//
// Observations / oracle:
//
//	(1) live-instance counter per name from the hydra.swamp.created / hydra.swamp.closed notes: never
//	    above 1;
//	(2) hook-free: among all distinct objects SummonSwamp has returned for the name, at most one has
//	    its closing flag unset at any observation instant; a vigil that began on an open object is
//	    never overlapped by a vigil on a different object of the same name;
//	(3) "served by the current instance" is observed through (2): a request in flight on an object
//	    while SummonSwamp hands out another one;
//	(4) a write acknowledged through one summon is visible through the next (no destroy in between;
//	    in-memory swamps: within the idle period).
package c18

import (
	"context"
	"fmt"
	"math/rand/v2"
	"os"
	"regexp"
	"sort"
	"strings"
	"sync"
	"sync/atomic"
	"testing"
	"testing/synctest"
	"time"

	"github.com/hydraide/hydraide/app/core/hydra/swamp"
	"github.com/hydraide/hydraide/app/name"
	"github.com/hydraide/hydraide/app/verifhook"
	hydrapb "github.com/hydraide/hydraide/sdk/go/hydraidego/v3/hydraidepbgo"

	"verifharness/rig"
)

const (
	hookGot     = "hydra.summon.gotWaiter"
	hookCreate  = "hydra.summon.beforeCreate"
	hookRelease = "hydra.summon.beforeRelease"
	noteCreated = "hydra.swamp.created"
	noteClosed  = "hydra.swamp.closed"
	swampName   = "c18/one/swamp"
	parkMs      = 5
)

// role O (scenario F5): the slot owner, parked at beforeCreate until the script's "release" step.
var roleHook = map[string]string{"A": hookRelease, "B": hookCreate, "D": hookGot, "O": hookCreate}

type step struct {
	At     int64  `json:"at"` // virtual ms after the set-up
	K      string `json:"k"`  // req | gwset | gwget | gwdestroy | summon | release (lets the role-O summoner go on)
	Hold   int64  `json:"hold,omitempty"`
	Write  bool   `json:"write,omitempty"`
	Cancel int64  `json:"cancel,omitempty"` // context cancelled after ms; -1 = already cancelled
	Role   string `json:"role,omitempty"`   // A: parked at beforeRelease, B: at beforeCreate, D: at gotWaiter (5 virtual ms, first hit); O: at beforeCreate until the "release" step
}

type script struct {
	Scenario string `json:"scenario"` // free | F1..F5
	InMem    bool   `json:"inmem"`
	Idle     int64  `json:"idle"`  // s
	Start    string `json:"start"` // fresh (never created) | cold (created, then closed by idle) | warm (open)
	Steps    []step `json:"steps"`
}

// ---------------------------------------------------------------------------------------------
// generation

func writerStep(r *rand.Rand, at int64, role string) step {
	if r.IntN(2) == 0 {
		return step{At: at, K: "gwset", Role: role}
	}
	return step{At: at, K: "req", Write: true, Hold: int64(r.IntN(4)) * 100, Role: role}
}

func tail(r *rand.Rand, sc *script, from int64) {
	// read back at once, then let idle closes happen and come back
	sc.Steps = append(sc.Steps, step{At: from, K: "gwget"})
	at := from
	for i := r.IntN(4); i > 0; i-- {
		switch r.IntN(3) {
		case 0:
			at += (sc.Idle+2)*1000 + int64(r.IntN(3))*1000
		case 1:
			at += int64(1+r.IntN(3)) * 500
		default:
			at += 1000
		}
		switch r.IntN(4) {
		case 0:
			sc.Steps = append(sc.Steps, step{At: at, K: "gwget"})
		case 1:
			sc.Steps = append(sc.Steps, step{At: at, K: "gwset"})
		case 2:
			sc.Steps = append(sc.Steps, step{At: at, K: "req", Write: true, Hold: int64(r.IntN(3)) * 500})
		default:
			sc.Steps = append(sc.Steps, step{At: at, K: "req", Hold: int64(1+r.IntN(4)) * 500}, step{At: at, K: "gwset"})
		}
	}
	sc.Steps = append(sc.Steps, step{At: at + 1, K: "gwget"})
}

// The wait-slot of a name is dropped when its counter hits exactly zero at a release: +1 per wait,
// -1 per finished summon, so every uncontended summon since the slot was made pushes it further
// below zero. hist(start) is that number after the set-up; "cold0"/"warm0" set-ups create the swamp
// with one contended summon, which drops the slot and lets the next summon start a new one at zero.
func hist(start string) int {
	switch start {
	case "cold", "warm":
		return 1
	}
	return 0
}

func genForced(r *rand.Rand, idx int) script {
	sc := script{InMem: r.IntN(2) == 0, Idle: int64(1 + r.IntN(3))}
	nC := 1 + r.IntN(3)
	waiters := func(at int64, n int) {
		for i := 0; i < n; i++ {
			sc.Steps = append(sc.Steps, writerStep(r, at+int64(i), "B"))
		}
	}
	switch idx % 4 {
	case 0: // F1: the slot holder gives up (context already cancelled), waiters behind it, then newcomers
		sc.Scenario, sc.Start = "F1", []string{"fresh", "cold", "cold0"}[r.IntN(3)]
		sc.Steps = append(sc.Steps, step{At: 100, K: "summon", Cancel: -1, Role: "A"})
		waiters(101, 1+hist(sc.Start))
		for i := 0; i < nC; i++ {
			sc.Steps = append(sc.Steps, writerStep(r, 107+int64(i), ""))
		}
		tail(r, &sc, 130)
	case 1: // F2: the slot holder waits 30 s for a closing swamp and gives up; waiters behind it; newcomers; then the swamp closes
		sc.Scenario, sc.Start = "F2", []string{"warm", "warm0"}[r.IntN(2)]
		hold := 40000 + int64(r.IntN(15))*1000
		sc.Steps = append(sc.Steps, step{At: 0, K: "req", Hold: hold}, step{At: 100, K: "gwdestroy"}, step{At: 200, K: "summon"})
		waiters(300, 3+hist(sc.Start))
		for i := 0; i < nC; i++ {
			sc.Steps = append(sc.Steps, writerStep(r, 31000+int64(i)*int64(r.IntN(3))*500, ""))
		}
		tail(r, &sc, hold+1000)
	case 2: // F3: the slot holder's client went away while it waited for a closing swamp; it notices when the swamp is gone
		sc.Scenario, sc.Start = "F3", []string{"warm", "warm0"}[r.IntN(2)]
		hold := 2000 + int64(r.IntN(20))*1000
		sc.Steps = append(sc.Steps, step{At: 0, K: "req", Hold: hold}, step{At: 100, K: "gwdestroy"}, step{At: 200, K: "summon", Cancel: int64(1 + r.IntN(1500)), Role: "A"})
		waiters(300, 3+hist(sc.Start))
		for i := 0; i < nC; i++ {
			sc.Steps = append(sc.Steps, writerStep(r, hold+parkMs+2+int64(i), ""))
		}
		tail(r, &sc, hold+30)
	default: // F4: as F1, plus a summoner that fetched the slot object before it was dropped
		sc.Scenario, sc.Start = "F4", []string{"fresh", "cold", "cold0"}[r.IntN(3)]
		sc.Steps = append(sc.Steps, step{At: 100, K: "summon", Cancel: -1, Role: "A"})
		waiters(101, 1+hist(sc.Start))
		sc.Steps = append(sc.Steps, step{At: 103, K: "req", Write: r.IntN(2) == 0, Hold: 100, Role: "D"})
		for i := 0; i < nC; i++ {
			sc.Steps = append(sc.Steps, writerStep(r, 109+int64(i), ""))
		}
		tail(r, &sc, 130)
	}
	return sc
}

// genOwner, scenario F5: the slot owner O is parked inside the create section (beforeCreate) until the
// "release" step. Meanwhile: 0-2 summons that queue up behind it, (a) a summon that gives up on its
// context while the slot is taken, 0-2 further summons, optionally (a) again and more summons; then the
// owner is released. (a) is one of: context already cancelled; a deadline that runs out while the summon
// waits for the slot (it only notices at the next wake-up); a deadline that runs out while the summon
// is parked at gotWaiter, i.e. it finds the slot taken and its context done.
func genOwner(r *rand.Rand, idx int) script {
	sc := script{Scenario: "F5", Idle: int64(1 + r.IntN(3))}
	switch idx % 3 {
	case 0:
		sc.Start, sc.InMem = "fresh", r.IntN(2) == 0
	case 1: // the owner has a storage file to load
		sc.Start, sc.InMem = []string{"cold", "cold0"}[r.IntN(2)], false
	default:
		sc.Start, sc.InMem = []string{"fresh", "cold", "cold0"}[r.IntN(3)], r.IntN(2) == 0
	}
	at := int64(100)
	sc.Steps = append(sc.Steps, writerStep(r, at, "O"))
	at += 2
	others := func(n int) {
		for ; n > 0; n-- {
			switch r.IntN(4) {
			case 0:
				sc.Steps = append(sc.Steps, step{At: at, K: "req", Hold: int64(r.IntN(3)) * 100})
			case 1:
				sc.Steps = append(sc.Steps, step{At: at, K: "summon"})
			default:
				sc.Steps = append(sc.Steps, writerStep(r, at, ""))
			}
			at += int64(r.IntN(2))
		}
		at += 2
	}
	giveUp := func() {
		k := "summon"
		if r.IntN(4) == 0 {
			k = "req"
		}
		switch r.IntN(4) {
		case 0: // deadline runs out while it waits for the slot
			sc.Steps = append(sc.Steps, step{At: at, K: k, Cancel: int64(1 + r.IntN(3))})
		case 1: // deadline runs out while it is parked before it looks at the slot
			sc.Steps = append(sc.Steps, step{At: at, K: k, Cancel: int64(1 + r.IntN(parkMs-1)), Role: "D"})
		default:
			sc.Steps = append(sc.Steps, step{At: at, K: k, Cancel: -1})
		}
		at += parkMs + 3
	}
	before, mid := r.IntN(3), r.IntN(3)
	if before+mid == 0 {
		mid = 1
	}
	others(before)
	giveUp()
	others(mid)
	if r.IntN(2) == 0 {
		giveUp()
		others(r.IntN(3))
	}
	at += int64(r.IntN(3)) * 10
	sc.Steps = append(sc.Steps, step{At: at, K: "release"})
	tail(r, &sc, at+30+int64(r.IntN(2))*400)
	return sc
}

func genFree(r *rand.Rand) script {
	sc := script{Scenario: "free", InMem: r.IntN(2) == 0, Idle: int64(1 + r.IntN(2)), Start: []string{"fresh", "cold", "warm"}[r.IntN(3)]}
	actors := 3 + r.IntN(6)
	for a := 0; a < actors; a++ {
		at := int64(r.IntN(3)) * 500
		for n := 1 + r.IntN(4); n > 0; n-- {
			var st step
			switch x := r.IntN(100); {
			case x < 35:
				st = step{K: "req", Write: r.IntN(2) == 0, Hold: int64(r.IntN(5)) * 500}
			case x < 55:
				st = step{K: "gwset"}
			case x < 70:
				st = step{K: "gwget"}
			case x < 82:
				st = step{K: "gwdestroy"}
			default:
				st = step{K: "summon", Cancel: []int64{-1, 1, 400, 1000, 2500}[r.IntN(5)]}
			}
			st.At = at
			sc.Steps = append(sc.Steps, st)
			switch r.IntN(4) {
			case 0:
				at += (sc.Idle + 2) * 1000 // exactly the tick on which an idle swamp is closed
			case 1:
				at += (sc.Idle+2)*1000 + int64(r.IntN(3))*500
			case 2:
				at += int64(r.IntN(4)) * 500
			default:
				at += 1000
			}
		}
	}
	sort.SliceStable(sc.Steps, func(i, j int) bool { return sc.Steps[i].At < sc.Steps[j].At })
	last := sc.Steps[len(sc.Steps)-1].At
	sc.Steps = append(sc.Steps, step{At: last + 3000, K: "gwget"})
	return sc
}

func fixedCases() []script {
	var out []script
	for _, inmem := range []bool{true, false} {
		out = append(out,
			script{Scenario: "F1", InMem: inmem, Idle: 2, Start: "fresh", Steps: []step{{At: 100, K: "summon", Cancel: -1, Role: "A"}, {At: 101, K: "gwset", Role: "B"}, {At: 107, K: "gwset"}, {At: 130, K: "gwget"}}},
			script{Scenario: "F1", InMem: inmem, Idle: 2, Start: "cold", Steps: []step{{At: 100, K: "summon", Cancel: -1, Role: "A"}, {At: 101, K: "req", Write: true, Hold: 200, Role: "B"}, {At: 107, K: "req", Write: true, Hold: 200}, {At: 500, K: "gwget"}}},
			script{Scenario: "F3", InMem: inmem, Idle: 2, Start: "warm0", Steps: []step{{At: 0, K: "req", Hold: 3000}, {At: 100, K: "gwdestroy"}, {At: 200, K: "summon", Cancel: 1000, Role: "A"}, {At: 300, K: "gwset", Role: "B"}, {At: 301, K: "gwset", Role: "B"}, {At: 302, K: "gwset", Role: "B"}, {At: 3007, K: "gwset"}, {At: 3030, K: "gwget"}}},
			script{Scenario: "F2", InMem: inmem, Idle: 2, Start: "warm0", Steps: []step{{At: 0, K: "req", Hold: 45000}, {At: 100, K: "gwdestroy"}, {At: 200, K: "summon"}, {At: 300, K: "req", Write: true, Hold: 100, Role: "B"}, {At: 301, K: "req", Write: true, Hold: 100, Role: "B"}, {At: 302, K: "req", Write: true, Hold: 100, Role: "B"}, {At: 31000, K: "req", Write: true, Hold: 100}, {At: 46000, K: "gwget"}}},
			// F5: owner parked in the create section; a cancelled summon, then a newcomer
			script{Scenario: "F5", InMem: inmem, Idle: 2, Start: "fresh", Steps: []step{{At: 100, K: "gwset", Role: "O"}, {At: 105, K: "summon", Cancel: -1}, {At: 110, K: "gwset"}, {At: 120, K: "release"}, {At: 150, K: "gwget"}}},
			// F5: (file to load when persistent) a waiter before, the cancelled summon twice, newcomers between and after
			script{Scenario: "F5", InMem: inmem, Idle: 2, Start: "cold", Steps: []step{{At: 100, K: "req", Write: true, Hold: 200, Role: "O"}, {At: 102, K: "gwset"}, {At: 105, K: "summon", Cancel: -1}, {At: 110, K: "req", Write: true, Hold: 100}, {At: 113, K: "summon", Cancel: -1}, {At: 116, K: "gwset"}, {At: 125, K: "release"}, {At: 600, K: "gwget"}}},
			// F5: a deadline that runs out while waiting for the slot, one that runs out before the slot is looked at
			script{Scenario: "F5", InMem: inmem, Idle: 2, Start: "fresh", Steps: []step{{At: 100, K: "gwset", Role: "O"}, {At: 102, K: "summon", Cancel: 2}, {At: 106, K: "summon", Cancel: 3, Role: "D"}, {At: 115, K: "gwset"}, {At: 125, K: "release"}, {At: 160, K: "gwget"}}},
		)
	}
	return out
}

// ---------------------------------------------------------------------------------------------
// runner

type stepState struct {
	idx      int
	st       step
	goid     atomic.Int64
	parked   atomic.Bool
	returned atomic.Bool
	err      string
}

type wrec struct {
	key             string
	callSeq, ackSeq int64
	ackAt           int64
	obj             swamp.Swamp
}

type drec struct{ startSeq, retSeq int64 }

type outcome struct {
	Sigs         []string
	Whats        []string
	Witness      map[string]any
	Inconclusive string
	Nontrivial   bool
	Stuck        bool
	Counts       map[string]int64
}

func strp(s string) *string { return &s }

func cancelledCtx() context.Context {
	ctx, c := context.WithCancel(context.Background())
	c()
	return ctx
}

// isClosed: the object's closing flag is set. WaitForGracefulClose refuses ("not closing yet") only
// while the flag is clear and has no side effect (IsClosing() would refresh the idle timer).
func isClosed(sw swamp.Swamp) bool {
	err := sw.WaitForGracefulClose(cancelledCtx())
	return err == nil || !strings.Contains(err.Error(), "not closing")
}

var stuckHook = func(out outcome, sc script) {}

func runScript(t *testing.T, sc script) (out outcome) {
	root := rig.TempRoot("c18")
	defer rig.RemoveAll(root)
	out.Counts = map[string]int64{}
	count := func(k string, n int64) { out.Counts[k] += n }
	log := &eventLog{}
	hits0 := map[string]int64{}
	for _, h := range []string{hookGot, hookCreate, hookRelease, noteCreated, noteClosed} {
		hits0[h] = verifhook.Hits(h)
	}
	defer func() {
		for h, n := range hits0 {
			count("hook_hits_"+h, verifhook.Hits(h)-n)
		}
	}()
	rig.InstallSentinel().Drain()

	synctest.Test(t, func(t *testing.T) {
		var mu sync.Mutex // harness state
		var seq int64
		tick := func() int64 { seq++; return seq } // under mu
		var objs []swamp.Swamp
		active := map[swamp.Swamp]int{}    // vigil intervals open on an object
		beganOpen := map[swamp.Swamp]int{} // ... that began while the object was open
		live, maxLive, dupClosed := 0, 0, 0
		var writes []*wrec
		var destroys []*drec
		seen := map[string]bool{}
		start := time.Now()
		now := func() int64 { return int64(time.Since(start) / time.Millisecond) }
		violate := func(clause, what string) { // under mu
			sig := clause + ":" + sc.Scenario
			if seen[sig] {
				return
			}
			seen[sig] = true
			out.Sigs = append(out.Sigs, sig)
			out.Whats = append(out.Whats, fmt.Sprintf("%s (at %d ms, scenario %s)", what, now(), sc.Scenario))
		}
		objIndex := func(sw swamp.Swamp) int { // under mu
			for i, o := range objs {
				if o == sw {
					return i
				}
			}
			objs = append(objs, sw)
			return len(objs) - 1
		}
		checkObjects := func(where string) { // under mu
			var open []int
			for i, o := range objs {
				if !isClosed(o) {
					open = append(open, i)
				}
			}
			if len(open) >= 2 && !isClosed(objs[open[0]]) {
				violate("two-live:open-objects", fmt.Sprintf("%s: SummonSwamp has handed out %d distinct objects for one swamp name and %d of them (#%v) are open (closing flag clear) at the same instant", where, len(objs), len(open), open))
			}
			if len(open) > int(out.Counts["max_open_objects"]) {
				out.Counts["max_open_objects"] = int64(len(open))
			}
		}

		verifhook.Set(noteCreated, func(kv ...any) {
			if len(kv) == 0 || kv[0] != swampName {
				return
			}
			mu.Lock()
			defer mu.Unlock()
			live++
			if live > maxLive {
				maxLive = live
			}
			log.add(fmt.Sprintf("%d ms note created (live=%d)", now(), live))
			if live > 1 {
				violate("two-live:notes-counter", fmt.Sprintf("a second in-memory instance of the swamp was constructed while the first one has not been closed (created-closed = %d)", live))
			}
		})
		verifhook.Set(noteClosed, func(kv ...any) {
			if len(kv) == 0 || kv[0] != swampName {
				return
			}
			mu.Lock()
			defer mu.Unlock()
			if live > 0 {
				live--
			} else {
				dupClosed++
			}
			log.add(fmt.Sprintf("%d ms note closed (live=%d)", now(), live))
		})
		var steps []*stepState
		var stepsMu sync.Mutex
		stepOf := func(g int64) *stepState {
			stepsMu.Lock()
			defer stepsMu.Unlock()
			for _, s := range steps {
				if s.goid.Load() == g {
					return s
				}
			}
			return nil
		}
		ownerGo := make(chan struct{}) // closed by the "release" step: the role-O summoner goes on
		var ownerOnce sync.Once
		releaseOwner := func() { ownerOnce.Do(func() { close(ownerGo) }) }
		park := func(hook string) {
			verifhook.Set(hook, func(...any) {
				s := stepOf(int64(goid()))
				if s == nil || roleHook[s.st.Role] != hook || !s.parked.CompareAndSwap(false, true) {
					return
				}
				role := s.st.Role
				log.add(fmt.Sprintf("%d ms %s#%d (role %s) parked at %s", now(), s.st.K, s.idx, role, hook))
				if role == "O" {
					<-ownerGo
				} else {
					time.Sleep(parkMs * time.Millisecond)
				}
				log.add(fmt.Sprintf("%d ms %s#%d (role %s) leaves %s", now(), s.st.K, s.idx, role, hook))
			})
		}
		for _, hook := range []string{hookGot, hookCreate, hookRelease} {
			park(hook)
		}
		defer func() {
			for _, h := range []string{hookGot, hookCreate, hookRelease, noteCreated, noteClosed} {
				verifhook.Set(h, nil)
			}
		}()

		r := rig.New(rig.Options{Root: root})
		r.Register("c18/one/*", sc.InMem, sc.Idle, 1)
		hy := r.Zeus.GetHydra()
		nm := name.Load(swampName)
		island := rig.Island(swampName)
		bg := context.Background()

		gwSet := func(k string) (bool, error) {
			resp, err := r.GW.Set(bg, &hydrapb.SetRequest{Swamps: []*hydrapb.SwampRequest{{IslandID: island, SwampName: swampName, CreateIfNotExist: true, Overwrite: true,
				KeyValues: []*hydrapb.KeyValuePair{{Key: k, StringVal: strp("v-" + k)}}}}})
			if err != nil || resp == nil || len(resp.GetSwamps()) != 1 || resp.GetSwamps()[0].ErrorCode != nil || len(resp.GetSwamps()[0].GetKeysAndStatuses()) != 1 {
				return false, err
			}
			st := resp.GetSwamps()[0].GetKeysAndStatuses()[0].GetStatus()
			return st == hydrapb.Status_NEW || st == hydrapb.Status_UPDATED || st == hydrapb.Status_NOTHING_CHANGED, nil
		}
		// expected: which acknowledged writes must be visible to a read called at (callSeq, at)
		expected := func(callSeq, at int64) []*wrec { // under mu
			var out []*wrec
			for _, w := range writes {
				if w.ackSeq == 0 || w.ackSeq >= callSeq {
					continue
				}
				ok := true
				for _, d := range destroys {
					if d.retSeq == 0 || d.retSeq > w.callSeq {
						ok = false
					}
				}
				if sc.InMem && at >= w.ackAt+sc.Idle*1000 {
					ok = false
				}
				if ok {
					out = append(out, w)
				}
			}
			return out
		}
		invisible := func(w *wrec, how string, reader swamp.Swamp) { // under mu
			second := "no"
			if maxLive > 1 || out.Counts["max_open_objects"] > 1 {
				second = "yes"
			}
			detail := ""
			if w.obj != nil && reader != nil {
				detail = fmt.Sprintf("; written through object #%d (open now: %v), read through object #%d", objIndex(w.obj), !isClosed(w.obj), objIndex(reader))
			}
			violate("visibility:acked-write-invisible-through-next-summon:second-instance="+second,
				fmt.Sprintf("key %s was acknowledged at %d ms, no destroy since, but a %s called afterwards does not see it%s", w.key, w.ackAt, how, detail))
		}

		// ---- set-up
		if sc.Start != "fresh" {
			if strings.HasSuffix(sc.Start, "0") {
				// create the swamp with one contended summon: the first writer is parked at beforeRelease,
				// the second waits behind it
				s1 := &stepState{idx: -1, st: step{K: "gwset", Role: "A"}}
				stepsMu.Lock()
				steps = append(steps, s1)
				stepsMu.Unlock()
				var ok1 atomic.Bool
				go func() {
					s1.goid.Store(int64(goid()))
					ok, _ := gwSet("seed")
					ok1.Store(ok)
				}()
				time.Sleep(time.Millisecond)
				if ok, err := gwSet("seed2"); !ok {
					out.Inconclusive = fmt.Sprintf("seed write failed: %v", err)
				}
				synctest.Wait()
				time.Sleep(2 * parkMs * time.Millisecond)
				if !ok1.Load() || !s1.parked.Load() {
					out.Inconclusive = "contended set-up did not happen"
				}
				stepsMu.Lock()
				steps = nil
				stepsMu.Unlock()
			} else if ok, err := gwSet("seed"); !ok {
				out.Inconclusive = fmt.Sprintf("seed write failed: %v", err)
			}
			if strings.HasPrefix(sc.Start, "cold") {
				time.Sleep(time.Duration(sc.Idle+3) * time.Second)
				synctest.Wait()
				if r.Active() != 0 {
					out.Inconclusive = "swamp not closed by idle during set-up"
				}
			}
		}
		start = time.Now()

		launch := func(s *stepState) {
			go func() {
				s.goid.Store(int64(goid()))
				defer s.returned.Store(true)
				ctx, cancel := bg, context.CancelFunc(func() {})
				switch {
				case s.st.Cancel < 0:
					ctx = cancelledCtx()
				case s.st.Cancel > 0:
					ctx, cancel = context.WithTimeout(bg, time.Duration(s.st.Cancel)*time.Millisecond)
				}
				defer cancel()
				summon := func(ctx context.Context) swamp.Swamp {
					sw, err := hy.SummonSwamp(ctx, island, nm)
					if err != nil {
						s.err = err.Error()
						return nil
					}
					mu.Lock()
					i := objIndex(sw)
					for o, n := range beganOpen {
						if n > 0 && o != sw {
							violate("overlap:summon-returns-other-object-during-vigil",
								fmt.Sprintf("SummonSwamp returned object #%d while a request still holds a vigil (begun while that object was open) on object #%d (closed now: %v)", i, objIndex(o), isClosed(o)))
						}
					}
					checkObjects("summon return")
					mu.Unlock()
					return sw
				}
				switch s.st.K {
				case "release":
					log.add(fmt.Sprintf("%d ms release#%d: the owner may go on", now(), s.idx))
					releaseOwner()
				case "summon":
					if sw := summon(ctx); sw != nil {
						sw.BeginVigil()
						sw.CeaseVigil()
					}
				case "req":
					// the request begins here: a destroy that returns after this point overlaps it
					mu.Lock()
					reqCallSeq := tick()
					mu.Unlock()
					sw := summon(ctx)
					if sw == nil {
						return
					}
					sw.BeginVigil()
					mu.Lock()
					active[sw]++
					open := !isClosed(sw)
					if open {
						beganOpen[sw]++
					} else {
						out.Counts["vigils_begun_on_an_already_closing_object"]++
					}
					for o, n := range active {
						if n > 0 && o != sw && open && beganOpen[o] > 0 {
							violate("overlap:vigils-on-two-objects", fmt.Sprintf("two requests hold vigils on different objects (#%d and #%d) of one swamp name, both begun while their object was open", objIndex(o), objIndex(sw)))
						}
					}
					mu.Unlock()
					var w *wrec
					if s.st.Write {
						w = &wrec{key: fmt.Sprintf("r%d", s.idx), obj: sw, callSeq: reqCallSeq}
						mu.Lock()
						writes = append(writes, w)
						mu.Unlock()
						tr := sw.CreateTreasure(w.key)
						g := tr.StartTreasureGuard(true)
						tr.SetContentString(g, "v-"+w.key)
						tr.Save(g)
						tr.ReleaseTreasureGuard(g)
						if sw.TreasureExists(w.key) {
							mu.Lock()
							w.ackSeq, w.ackAt = tick(), now()
							mu.Unlock()
						}
					}
					if s.st.Hold > 0 {
						time.Sleep(time.Duration(s.st.Hold) * time.Millisecond)
					}
					mu.Lock()
					active[sw]--
					if open {
						beganOpen[sw]--
					}
					mu.Unlock()
					sw.CeaseVigil()
					if w != nil && w.ackSeq != 0 {
						mu.Lock()
						cs, at := tick(), now()
						mu.Unlock()
						if sw2 := summon(bg); sw2 != nil {
							sw2.BeginVigil()
							exists := sw2.TreasureExists(w.key)
							sw2.CeaseVigil()
							mu.Lock()
							for _, e := range expected(cs, at) {
								if e == w && !exists {
									invisible(w, "read through a fresh SummonSwamp by the writer itself", sw2)
								}
							}
							mu.Unlock()
						}
					}
				case "gwset":
					w := &wrec{key: fmt.Sprintf("g%d", s.idx)}
					mu.Lock()
					w.callSeq = tick()
					writes = append(writes, w)
					mu.Unlock()
					ok, err := gwSet(w.key)
					if err != nil {
						s.err = err.Error()
					}
					if ok {
						mu.Lock()
						w.ackSeq, w.ackAt = tick(), now()
						mu.Unlock()
					}
				case "gwget":
					mu.Lock()
					cs, at := tick(), now()
					exp := expected(cs, at)
					mu.Unlock()
					if len(exp) == 0 {
						return
					}
					keys := make([]string, len(exp))
					for i, w := range exp {
						keys[i] = w.key
					}
					resp, err := r.GW.Get(bg, &hydrapb.GetRequest{Swamps: []*hydrapb.GetSwamp{{IslandID: island, SwampName: swampName, Keys: keys}}})
					mu.Lock()
					// a destroy that started meanwhile voids the expectation
					stillExp := map[string]bool{}
					for _, w := range expected(cs, at) {
						stillExp[w.key] = true
					}
					for _, d := range destroys {
						if d.startSeq > cs {
							stillExp = map[string]bool{}
						}
					}
					found := map[string]bool{}
					if err == nil && resp != nil && len(resp.GetSwamps()) == 1 {
						for _, tr := range resp.GetSwamps()[0].GetTreasures() {
							if tr.GetIsExist() {
								found[tr.GetKey()] = true
							}
						}
					} else if err != nil {
						s.err = err.Error()
					}
					out.Counts["visibility_checks"] += int64(len(stillExp))
					for _, w := range exp {
						if stillExp[w.key] && !found[w.key] && (err == nil || strings.Contains(err.Error(), "does not exist")) {
							invisible(w, "gateway Get", nil)
						}
					}
					mu.Unlock()
				case "gwdestroy":
					d := &drec{}
					mu.Lock()
					d.startSeq = tick()
					destroys = append(destroys, d)
					mu.Unlock()
					_, err := r.GW.Destroy(bg, &hydrapb.DestroyRequest{IslandID: island, SwampName: swampName})
					if err != nil {
						s.err = err.Error()
					}
					mu.Lock()
					d.retSeq = tick()
					mu.Unlock()
				}
			}()
		}

		ordered := append([]step(nil), sc.Steps...)
		sort.SliceStable(ordered, func(i, j int) bool { return ordered[i].At < ordered[j].At })
		var endAt int64
		for i := 0; i < len(ordered); {
			at := ordered[i].At
			if d := at - now(); d > 0 {
				time.Sleep(time.Duration(d) * time.Millisecond)
			}
			var batch []*stepState
			for i < len(ordered) && ordered[i].At == at {
				s := &stepState{idx: i, st: ordered[i]}
				stepsMu.Lock()
				steps = append(steps, s)
				stepsMu.Unlock()
				batch = append(batch, s)
				if e := at + ordered[i].Hold; e > endAt {
					endAt = e
				}
				i++
			}
			for _, s := range batch {
				launch(s)
			}
			synctest.Wait()
			mu.Lock()
			checkObjects("quiescent point")
			mu.Unlock()
		}
		releaseOwner() // a script without a "release" step
		// run out: every request returns (a summon may wait 30 s twice), idle closes happen
		for k := 0; k < 100; k++ {
			time.Sleep(time.Second)
			synctest.Wait()
			mu.Lock()
			checkObjects("quiescent point")
			mu.Unlock()
			done := true
			for _, s := range steps {
				if !s.returned.Load() {
					done = false
				}
			}
			if done && now() > endAt+(sc.Idle+4)*1000 {
				break
			}
		}
		mu.Lock()
		count("max_live_by_notes", int64(maxLive))
		count("closed_notes_without_live_instance", int64(dupClosed))
		count("distinct_objects_seen", int64(len(objs)))
		count("writes_acknowledged", 0)
		for _, w := range writes {
			if w.ackSeq != 0 {
				count("writes_acknowledged", 1)
			}
		}
		count("destroys", int64(len(destroys)))
		if len(objs) > 1 {
			out.Nontrivial = true // the name went through more than one instance
		}
		placed := map[string]bool{}
		gaveUp := 0
		for _, s := range steps {
			count("steps:"+s.st.K, 1)
			if s.st.Role != "" {
				if s.parked.Load() {
					placed[s.st.Role] = true
					if s.st.Role == "O" {
						count("owner_parked_in_create_section_until_released", 1)
					} else {
						count("parked_"+roleHook[s.st.Role], 1)
					}
				} else {
					count("role_"+s.st.Role+"_never_reached_its_point", 1)
				}
			}
			if strings.Contains(s.err, "context") {
				count("summons_ended_by_context", 1)
				gaveUp++
			}
		}
		if sc.Scenario == "F5" {
			if placed["O"] && gaveUp > 0 {
				out.Nontrivial = true
				count("F5_summons_given_up_on_context", int64(gaveUp))
			} else if out.Inconclusive == "" && len(out.Sigs) == 0 {
				out.Inconclusive = fmt.Sprintf("forced schedule F5: owner parked at %s: %v, summons ended by their context: %d", hookCreate, placed["O"], gaveUp)
			}
		} else if sc.Scenario != "free" {
			if placed["B"] {
				out.Nontrivial = true
			} else if out.Inconclusive == "" && len(out.Sigs) == 0 {
				out.Inconclusive = "forced schedule: the waiter behind the slot holder never reached " + hookCreate
			}
		}
		if len(out.Sigs) > 0 {
			out.Witness = map[string]any{"script": sc, "events": log.list(), "max_live_by_notes": maxLive, "distinct_objects": len(objs)}
		}
		stillBlocked := 0
		for _, s := range steps {
			if !s.returned.Load() {
				stillBlocked++
			}
		}
		os := append([]swamp.Swamp(nil), objs...)
		mu.Unlock()
		if stillBlocked > 0 {
			count("requests_still_blocked_at_the_end(C17)", int64(stillBlocked))
		}
		// free a destroyer that lost its wake-up (C17) so that the bubble can end
		for _, sw := range os {
			sw.BeginVigil()
			sw.CeaseVigil()
		}
		synctest.Wait()
		r.Stop()
		time.Sleep(3 * time.Minute)
		synctest.Wait()
		for _, s := range steps {
			if !s.returned.Load() {
				out.Stuck = true
			}
		}
		if len(withFrame(dumpAll(), "zeus.(*zeus).StopHydra")) > 0 {
			out.Stuck = true
		}
		if out.Stuck {
			if out.Inconclusive == "" && len(out.Sigs) == 0 {
				out.Inconclusive = "a goroutine stayed parked after shutdown (lifecycle wait, see C17)"
			}
			stuckHook(out, sc)
		}
	})
	return
}

// ---------------------------------------------------------------------------------------------

type spec struct {
	From    int      `json:"from"`
	To      int      `json:"to"`
	Fixed   bool     `json:"fixed,omitempty"`
	Scripts []script `json:"scripts,omitempty"`
	Repeats int      `json:"repeats,omitempty"`
	OFrom   int      `json:"ofrom,omitempty"` // scenario F5 (genOwner) case indices
	OTo     int      `json:"oto,omitempty"`
}

const ownerBase = 1 << 20 // PRNG stream offset of the F5 cases (keeps the streams of the other cases as they were)

func gen(c *rig.Check, i int) script {
	r := c.Rand(i)
	if i%2 == 0 {
		return genForced(r, i/2)
	}
	return genFree(r)
}

func child(t *testing.T, c *rig.Check) {
	var sp spec
	c.ChildSpec(&sp)
	rec := func(o outcome, sc script) {
		c.Case(rig.Dump(sc), o.Nontrivial)
		c.Sample(sc)
		c.Count("scripts_"+sc.Scenario, 1)
		for k, n := range o.Counts {
			if strings.HasPrefix(k, "max_") {
				c.Seen(k, fmt.Sprint(n))
				continue
			}
			c.Count(k, n)
		}
		if o.Inconclusive != "" {
			c.Inconclusive(o.Inconclusive)
		}
		for i, sig := range o.Sigs {
			c.Violate(sig, o.Whats[i], o.Witness)
		}
	}
	stuckHook = func(o outcome, sc script) {
		rec(o, sc)
		c.Count("children_ended_early_because_a_goroutine_stayed_parked", 1)
		c.Finish()
		os.Exit(0)
	}
	reps := sp.Repeats
	if reps < 1 {
		reps = 1
	}
	for rep := 0; rep < reps; rep++ {
		cases := append([]script(nil), sp.Scripts...)
		if sp.Fixed {
			cases = append(cases, fixedCases()...)
		}
		for i := sp.From; i < sp.To; i++ {
			cases = append(cases, gen(c, i))
		}
		for i := sp.OFrom; i < sp.OTo; i++ {
			cases = append(cases, genOwner(c.Rand(ownerBase+i), i))
		}
		for _, sc := range cases {
			rec(runScript(t, sc), sc)
		}
	}
}

var digits = regexp.MustCompile(`0x[0-9a-f]+|\d+`)

func TestCheck(t *testing.T) {
	c := rig.NewCheck(t, "C18", "exploration")
	defer c.Finish()
	if c.IsChild() {
		child(t, c)
		return
	}
	c.Rule = "schedules on one swamp name in a synctest bubble: half forced (scenarios F1-F4: a summoner parked 5 virtual ms at hydra.summon.beforeRelease / beforeCreate / gotWaiter so that 'A holds the wait-slot, B waits, A finishes, C arrives' happens with the swamp absent from memory), half free (3-8 actors issuing handler-protocol requests with holds and writes, gateway Set/Get/Destroy, summons with cancelled contexts, at instants on a 500 ms grid that includes the idle-close ticks). On top of these, scenario F5 (96 / 2048 scripts): the slot owner is parked at beforeCreate (inside the create section, swamp absent from memory, with and without a storage file to load) until a release step; meanwhile 0-2 summons queue up, a summon gives up on its context (already cancelled / deadline runs out while it waits / deadline runs out before it looks at the slot), 0-2 further summons arrive, optionally the same again; then the owner goes on. Non-trivial: forced F1-F4 = the waiter behind the slot holder was parked at beforeCreate; F5 = the owner was parked at beforeCreate and at least one summon ended on its context; free = the name went through at least two instances. Distinct = distinct script JSON"
	c.Assumptions = []string{
		"an instance is 'live' from its construction until its close callback fires (notes) resp. while its closing flag is clear (hook-free form)",
		"duplicate close callbacks for one object make the notes counter under-count, never over-count",
		"a request may legitimately begin its vigil on an object that a concurrent Destroy has already marked closing (the summon-to-BeginVigil gap is unprotected by design); only vigils begun on an open object enter the overlap clause",
		"write visibility is only demanded when no destroy returned after the write was called and none started before the read returned; for in-memory swamps only within the idle period after the acknowledgement",
		"clause (3) 'served by the instance in hydra's map' is observed through object identity at summon returns, the map itself is not readable without side effects",
	}
	var specs []any
	if p := c.ReplayPath(); p != "" {
		var w struct {
			Witness struct {
				Script *script `json:"script"`
			} `json:"witness"`
		}
		rig.ReadJSON(p, &w)
		if w.Witness.Script != nil {
			specs = append(specs, spec{Scripts: []script{*w.Witness.Script}, Repeats: 5})
		}
	} else {
		n, ch, m := c.N(400, 8000), c.N(32, 256), c.N(96, 2048)
		for i := 0; i < ch; i++ {
			specs = append(specs, spec{From: i * n / ch, To: (i + 1) * n / ch, Fixed: i == 0, OFrom: i * m / ch, OTo: (i + 1) * m / ch})
		}
	}
	res := c.Fanout(specs, rig.FanoutOpts{Par: 16, Timeout: 6 * time.Minute})
	for _, r := range res {
		sp := r.Spec.(spec)
		switch {
		case r.TimedOut:
			c.Inconclusive(fmt.Sprintf("child [%d,%d) timed out (watchdog), log %s", sp.From, sp.To, r.LogPath))
		case len(r.Fatal) > 0:
			line := digits.ReplaceAllString(r.Fatal[0], "N")
			if len(line) > 100 {
				line = line[:100]
			}
			c.Violate("child-crash:"+line, fmt.Sprintf("child process died: %v (log %s)", r.Fatal, r.LogPath), map[string]any{"spec": sp})
		case r.NoPartial || r.ExitErr != nil:
			c.Inconclusive(fmt.Sprintf("child [%d,%d) ended without a verdict: %v, log %s", sp.From, sp.To, r.ExitErr, r.LogPath))
		}
	}
	c.Extra("hooks", []string{hookGot, hookCreate, hookRelease, noteCreated, noteClosed})
	c.MinNontrivial = c.N(150, 3000)
	c.MaxInconclusiveFrac = 0.1
}
