package c18

import (
	"regexp"
	"runtime"
	"strconv"
	"strings"
	"sync"
)

// gor is one goroutine of a full dump.
type gor struct {
	ID    int
	State string // text between the brackets of the header line
	Stack string // whole block
}

func dumpAll() []gor {
	buf := make([]byte, 1<<20)
	for {
		n := runtime.Stack(buf, true)
		if n < len(buf) {
			buf = buf[:n]
			break
		}
		buf = make([]byte, 2*len(buf))
	}
	var out []gor
	for _, blk := range strings.Split(string(buf), "\n\n") {
		blk = strings.TrimSpace(blk)
		if !strings.HasPrefix(blk, "goroutine ") {
			continue
		}
		head := blk
		if i := strings.IndexByte(blk, '\n'); i >= 0 {
			head = blk[:i]
		}
		g := gor{Stack: blk}
		rest := strings.TrimPrefix(head, "goroutine ")
		if i := strings.IndexByte(rest, ' '); i > 0 {
			g.ID, _ = strconv.Atoi(rest[:i])
		}
		if i, j := strings.IndexByte(head, '['), strings.LastIndexByte(head, ']'); i >= 0 && j > i {
			g.State = head[i+1 : j]
		}
		out = append(out, g)
	}
	return out
}

// goid returns the id of the calling goroutine.
func goid() int {
	var b [64]byte
	n := runtime.Stack(b[:], false)
	s := strings.TrimPrefix(string(b[:n]), "goroutine ")
	if i := strings.IndexByte(s, ' '); i > 0 {
		id, _ := strconv.Atoi(s[:i])
		return id
	}
	return -1
}

func mutexBlocked(state string) bool {
	return strings.Contains(state, "Mutex.Lock") || strings.Contains(state, "Mutex.RLock") || strings.Contains(state, "semacquire")
}

// withFrame returns the goroutines that have the given function-name fragment on their stack.
func withFrame(gs []gor, frag string) []gor {
	var out []gor
	for _, g := range gs {
		if strings.Contains(g.Stack, frag) {
			out = append(out, g)
		}
	}
	return out
}

var (
	addrRe  = regexp.MustCompile(`0x[0-9a-f]+`)
	frameFn = regexp.MustCompile(`(?m)^(github\.com/hydraide/hydraide/[^\s(]+(?:\([^)]*\))?[^\s(]*)\(`)
)

// blockedIn names the innermost repository function a goroutine sits in ("" if none).
func blockedIn(g gor) string {
	m := frameFn.FindStringSubmatch(g.Stack)
	if m == nil {
		return ""
	}
	f := strings.TrimPrefix(m[1], "github.com/hydraide/hydraide/app/")
	f = regexp.MustCompile(`\.func\d+(\.\d+)*`).ReplaceAllString(f, ".func")
	return f
}

func trimStack(s string, max int) string {
	s = addrRe.ReplaceAllString(s, "0x…")
	if len(s) > max {
		s = s[:max] + "…"
	}
	return s
}

// spinUntil yields until cond holds or maxIter scheduler yields went by. The bound is a watchdog on
// a schedule-forcing helper (mutex waits are not durable blocks, so synctest.Wait cannot be used
// while a hook handler keeps a mutex): when it fires the caller must report the case as
// inconclusive, never as held or violated.
func spinUntil(maxIter int, cond func() bool) bool {
	for i := 0; i < maxIter; i++ {
		if cond() {
			return true
		}
		runtime.Gosched()
	}
	return cond()
}

// eventLog is the hook-hit / step sequence kept as witness.
type eventLog struct {
	mu sync.Mutex
	ev []string
}

func (l *eventLog) add(s string) {
	l.mu.Lock()
	if len(l.ev) < 400 {
		l.ev = append(l.ev, s)
	}
	l.mu.Unlock()
}

func (l *eventLog) list() []string {
	l.mu.Lock()
	defer l.mu.Unlock()
	return append([]string(nil), l.ev...)
}
