package c08

// A tiny msgpack encoder with explicit control over the wire code of every value (the server's
// decoder maps wire codes to distinct Go types, which is what the canonical-equality rule is
// about), plus classification of decoded values for violation signatures.

import (
	"encoding/binary"
	"fmt"
	"math"
	"sort"
	"strings"
	"time"
)

// mv is one msgpack value: wire bytes + a human-readable description.
type mv struct {
	b []byte
	d string
	// abstract value (used to derive filter reference values that hit this record)
	k  string // int uint float str bool time nil other
	i  int64
	u  uint64
	f  float64
	s  string
	bv bool
}

func mvNil() mv { return mv{b: []byte{0xc0}, d: "nil", k: "nil"} }
func mvBool(v bool) mv {
	if v {
		return mv{b: []byte{0xc3}, d: "true", k: "bool", bv: true}
	}
	return mv{b: []byte{0xc2}, d: "false", k: "bool"}
}
func mvFix(v int) mv { // -32..127
	return mv{b: []byte{byte(int8(v))}, d: fmt.Sprintf("fix(%d)", v), k: "int", i: int64(v)}
}
func mvI8(v int8) mv {
	return mv{b: []byte{0xd0, byte(v)}, d: fmt.Sprintf("i8(%d)", v), k: "int", i: int64(v)}
}
func mvI16(v int16) mv {
	b := []byte{0xd1, 0, 0}
	binary.BigEndian.PutUint16(b[1:], uint16(v))
	return mv{b: b, d: fmt.Sprintf("i16(%d)", v), k: "int", i: int64(v)}
}
func mvI32(v int32) mv {
	b := make([]byte, 5)
	b[0] = 0xd2
	binary.BigEndian.PutUint32(b[1:], uint32(v))
	return mv{b: b, d: fmt.Sprintf("i32(%d)", v), k: "int", i: int64(v)}
}
func mvI64(v int64) mv {
	b := make([]byte, 9)
	b[0] = 0xd3
	binary.BigEndian.PutUint64(b[1:], uint64(v))
	return mv{b: b, d: fmt.Sprintf("i64(%d)", v), k: "int", i: v}
}
func mvU8(v uint8) mv {
	return mv{b: []byte{0xcc, v}, d: fmt.Sprintf("u8(%d)", v), k: "uint", u: uint64(v)}
}
func mvU16(v uint16) mv {
	b := []byte{0xcd, 0, 0}
	binary.BigEndian.PutUint16(b[1:], v)
	return mv{b: b, d: fmt.Sprintf("u16(%d)", v), k: "uint", u: uint64(v)}
}
func mvU32(v uint32) mv {
	b := make([]byte, 5)
	b[0] = 0xce
	binary.BigEndian.PutUint32(b[1:], v)
	return mv{b: b, d: fmt.Sprintf("u32(%d)", v), k: "uint", u: uint64(v)}
}
func mvU64(v uint64) mv {
	b := make([]byte, 9)
	b[0] = 0xcf
	binary.BigEndian.PutUint64(b[1:], v)
	return mv{b: b, d: fmt.Sprintf("u64(%d)", v), k: "uint", u: v}
}
func mvF32(v float32) mv {
	b := make([]byte, 5)
	b[0] = 0xca
	binary.BigEndian.PutUint32(b[1:], math.Float32bits(v))
	return mv{b: b, d: fmt.Sprintf("f32(%v)", v), k: "float", f: float64(v)}
}
func mvF64(v float64) mv {
	b := make([]byte, 9)
	b[0] = 0xcb
	binary.BigEndian.PutUint64(b[1:], math.Float64bits(v))
	d := fmt.Sprintf("f64(%v)", v)
	if v == 0 && math.Signbit(v) {
		d = "f64(-0)"
	}
	return mv{b: b, d: d, k: "float", f: v}
}
func mvStr(s string) mv {
	var b []byte
	switch {
	case len(s) < 32:
		b = append(b, 0xa0|byte(len(s)))
	case len(s) < 256:
		b = append(b, 0xd9, byte(len(s)))
	default:
		b = append(b, 0xda, byte(len(s)>>8), byte(len(s)))
	}
	return mv{b: append(b, s...), d: fmt.Sprintf("%q", s), k: "str", s: s}
}

// mvTime is the msgpack timestamp extension (type -1), 32-bit seconds form.
func mvTime(unix uint32) mv {
	b := make([]byte, 6)
	b[0], b[1] = 0xd6, 0xff
	binary.BigEndian.PutUint32(b[2:], unix)
	return mv{b: b, d: fmt.Sprintf("time(%d)", unix), k: "time", i: int64(unix)}
}
func mvArr(el ...mv) mv {
	var b []byte
	if len(el) < 16 {
		b = append(b, 0x90|byte(len(el)))
	} else {
		b = append(b, 0xdc, byte(len(el)>>8), byte(len(el)))
	}
	ds := make([]string, len(el))
	for i, e := range el {
		b = append(b, e.b...)
		ds[i] = e.d
	}
	return mv{b: b, d: "[" + strings.Join(ds, ",") + "]", k: "other"}
}

type kv struct {
	k string
	v mv
}

func mvMap(ent ...kv) mv {
	var b []byte
	if len(ent) < 16 {
		b = append(b, 0x80|byte(len(ent)))
	} else {
		b = append(b, 0xde, byte(len(ent)>>8), byte(len(ent)))
	}
	ds := make([]string, len(ent))
	for i, e := range ent {
		b = append(b, mvStr(e.k).b...)
		b = append(b, e.v.b...)
		ds[i] = e.k + ":" + e.v.d
	}
	return mv{b: b, d: "{" + strings.Join(ds, " ") + "}", k: "other"}
}

var magic = []byte{0xC7, 0x00}

func withMagic(b []byte) []byte { return append(append([]byte{}, magic...), b...) }

// ---------------------------------------------------------------------------
// classification of decoded values (for signatures)

const two53 = float64(1 << 53)

// valueKind names the canonical kind class of a value decoded by the msgpack library.
func valueKind(v any, present bool) string {
	if !present {
		return "missing"
	}
	switch n := v.(type) {
	case nil:
		return "nil"
	case bool:
		return "bool"
	case int8, int16, int32:
		return "int"
	case int64:
		if n > 1<<53 || n < -(1<<53) {
			return "int-big"
		}
		return "int"
	case uint8, uint16, uint32:
		return "uint"
	case uint64:
		if n > 1<<53 {
			return "uint-big"
		}
		return "uint"
	case float32:
		return floatKind(float64(n))
	case float64:
		return floatKind(n)
	case string:
		return "string"
	case time.Time:
		return "time"
	case map[string]any:
		return "map"
	case []any:
		return "array"
	}
	return fmt.Sprintf("other(%T)", v)
}

func floatKind(f float64) string {
	switch {
	case math.IsNaN(f):
		return "float-nan"
	case math.IsInf(f, 0):
		return "float-inf"
	case f != math.Trunc(f):
		return "float-frac"
	case math.Abs(f) >= two53:
		return "float-big"
	}
	return "float-int"
}

// walkPlain navigates a plain dotted path (no wildcard, no pseudo segment) through nested
// string-keyed maps, as documented for BytesFieldPath ("Address.City").
func walkPlain(m map[string]any, path string) (any, bool) {
	var cur any = m
	for _, part := range strings.Split(path, ".") {
		cm, ok := cur.(map[string]any)
		if !ok {
			return nil, false
		}
		cur, ok = cm[part]
		if !ok {
			return nil, false
		}
	}
	return cur, true
}

func pathSyntax(p string) string {
	switch {
	case strings.Contains(p, "#len"):
		return "len"
	case strings.Contains(p, "[*]"):
		return "wildcard"
	case strings.Contains(p, "."):
		return "dotted"
	}
	return "plain"
}

func sortedCopy(s []string) []string {
	o := append([]string{}, s...)
	sort.Strings(o)
	return o
}
