package c08

// Case model (plain data, JSON-serialisable = what a replay file holds) and the generator.

import (
	"fmt"
	"math"
	"math/rand/v2"
	"sort"

	hydrapb "github.com/hydraide/hydraide/sdk/go/hydraidego/v3/hydraidepbgo"
	"google.golang.org/protobuf/types/known/timestamppb"
)

const baseUnix = 946684800 // 2000-01-01T00:00:00Z

// KVSpec is one record write.
type KVSpec struct {
	Key     string `json:"key"`
	Content string `json:"content"`        // map | noprefix | nonmap | garbage | string
	Body    []byte `json:"body,omitempty"` // BytesVal as sent (incl. magic prefix where applicable)
	Str     string `json:"str,omitempty"`
	Desc    string `json:"desc"`
	Created int64  `json:"created,omitempty"` // unix ns, 0 = not supplied
	Updated int64  `json:"updated,omitempty"`
	Expired int64  `json:"expired,omitempty"`
}

type POp struct {
	Kind  int32  `json:"kind"`
	Path  string `json:"path"`
	Value []byte `json:"value,omitempty"`
	Desc  string `json:"desc"`
}

type PatchSpec struct {
	Key     string `json:"key"`
	Ops     []POp  `json:"ops"`
	Expired int64  `json:"expired,omitempty"`
}

// Leg is one TreasureFilter.
type Leg struct {
	Op    int32    `json:"op"`
	Path  *string  `json:"path,omitempty"`
	VK    string   `json:"vk,omitempty"` // i8 i16 i32 i64 u8 u16 u32 u64 f32 f64 str bool created (none for IN)
	I     int64    `json:"i,omitempty"`
	U     uint64   `json:"u,omitempty"`
	FB    uint64   `json:"fb,omitempty"` // float64 bits
	S     string   `json:"s,omitempty"`
	B     bool     `json:"b,omitempty"`
	Strs  []string `json:"strs,omitempty"`
	I32s  []int32  `json:"i32s,omitempty"`
	I64s  []int64  `json:"i64s,omitempty"`
	Label string   `json:"label,omitempty"`
}

type NestedSpec struct {
	SlicePath string `json:"slice_path"`
	Cond      Leg    `json:"cond"`
	Mode      int32  `json:"mode"`
	Label     string `json:"label,omitempty"`
}

type FNode struct {
	Or     bool         `json:"or,omitempty"`
	Legs   []Leg        `json:"legs,omitempty"`
	Subs   []FNode      `json:"subs,omitempty"`
	Nested []NestedSpec `json:"nested,omitempty"`
}

type Query struct {
	Idx         int32    `json:"idx"` // IndexType
	Desc        bool     `json:"desc,omitempty"`
	From        int32    `json:"from,omitempty"`
	Limit       int32    `json:"limit,omitempty"`
	MaxResults  int32    `json:"max_results,omitempty"`
	FromNs      *int64   `json:"from_ns,omitempty"`
	ToNs        *int64   `json:"to_ns,omitempty"`
	KeysOnly    bool     `json:"keys_only,omitempty"`
	Include     []string `json:"include,omitempty"`
	Exclude     []string `json:"exclude,omitempty"`
	F           FNode    `json:"f"`
	Simple      bool     `json:"simple,omitempty"`
	BypassFirst bool     `json:"bypass_first,omitempty"`
}

type Step struct {
	Op      string      `json:"op"` // set | patch | delete | evict | query
	KVs     []KVSpec    `json:"kvs,omitempty"`
	Patches []PatchSpec `json:"patches,omitempty"`
	Create  bool        `json:"create,omitempty"`
	Keys    []string    `json:"keys,omitempty"`
	Q       *Query      `json:"q,omitempty"`
}

type Case struct {
	Idx   int    `json:"idx"`
	Mem   bool   `json:"mem"`
	Swamp string `json:"swamp"`
	Steps []Step `json:"steps"`
}

// ---------------------------------------------------------------------------
// proto construction

func sp(s string) *string { return &s }

func (l Leg) pb() *hydrapb.TreasureFilter {
	f := &hydrapb.TreasureFilter{Operator: hydrapb.Relational_Operator(l.Op), BytesFieldPath: l.Path,
		StringInVals: l.Strs, Int32InVals: l.I32s, Int64InVals: l.I64s}
	if l.Label != "" {
		f.Label = sp(l.Label)
	}
	switch l.VK {
	case "i8":
		f.CompareValue = &hydrapb.TreasureFilter_Int8Val{Int8Val: int32(l.I)}
	case "i16":
		f.CompareValue = &hydrapb.TreasureFilter_Int16Val{Int16Val: int32(l.I)}
	case "i32":
		f.CompareValue = &hydrapb.TreasureFilter_Int32Val{Int32Val: int32(l.I)}
	case "i64":
		f.CompareValue = &hydrapb.TreasureFilter_Int64Val{Int64Val: l.I}
	case "u8":
		f.CompareValue = &hydrapb.TreasureFilter_Uint8Val{Uint8Val: uint32(l.U)}
	case "u16":
		f.CompareValue = &hydrapb.TreasureFilter_Uint16Val{Uint16Val: uint32(l.U)}
	case "u32":
		f.CompareValue = &hydrapb.TreasureFilter_Uint32Val{Uint32Val: uint32(l.U)}
	case "u64":
		f.CompareValue = &hydrapb.TreasureFilter_Uint64Val{Uint64Val: l.U}
	case "f32":
		f.CompareValue = &hydrapb.TreasureFilter_Float32Val{Float32Val: float32(math.Float64frombits(l.FB))}
	case "f64":
		f.CompareValue = &hydrapb.TreasureFilter_Float64Val{Float64Val: math.Float64frombits(l.FB)}
	case "str":
		f.CompareValue = &hydrapb.TreasureFilter_StringVal{StringVal: l.S}
	case "bool":
		b := hydrapb.Boolean_FALSE
		if l.B {
			b = hydrapb.Boolean_TRUE
		}
		f.CompareValue = &hydrapb.TreasureFilter_BoolVal{BoolVal: b}
	case "created":
		f.CompareValue = &hydrapb.TreasureFilter_CreatedAtVal{CreatedAtVal: timestamppb.New(nsTime(l.I))}
	}
	return f
}

func (n FNode) pb() *hydrapb.FilterGroup {
	g := &hydrapb.FilterGroup{Logic: hydrapb.FilterLogic_AND}
	if n.Or {
		g.Logic = hydrapb.FilterLogic_OR
	}
	for _, l := range n.Legs {
		g.Filters = append(g.Filters, l.pb())
	}
	for _, s := range n.Subs {
		g.SubGroups = append(g.SubGroups, s.pb())
	}
	for _, ns := range n.Nested {
		nf := &hydrapb.NestedSliceWhereFilter{EvalMode: hydrapb.NestedSliceWhereFilter_Mode(ns.Mode), SlicePath: ns.SlicePath,
			Conditions: &hydrapb.FilterGroup{Logic: hydrapb.FilterLogic_AND, Filters: []*hydrapb.TreasureFilter{ns.Cond.pb()}}}
		if ns.Label != "" {
			nf.Label = sp(ns.Label)
		}
		g.NestedSliceWhereFilters = append(g.NestedSliceWhereFilters, nf)
	}
	return g
}

// legValues returns the reference value(s) of an Equal / IN leg as plain Go values, following
// the proto comments (IntNVal = that integer, Float32Val widened to float64, BoolVal enum).
func (l Leg) legValues() []any {
	switch hydrapb.Relational_Operator(l.Op) {
	case hydrapb.Relational_STRING_IN:
		o := make([]any, len(l.Strs))
		for i, s := range l.Strs {
			o[i] = s
		}
		return o
	case hydrapb.Relational_INT32_IN:
		o := make([]any, len(l.I32s))
		for i, s := range l.I32s {
			o[i] = int64(s)
		}
		return o
	case hydrapb.Relational_INT64_IN:
		o := make([]any, len(l.I64s))
		for i, s := range l.I64s {
			o[i] = s
		}
		return o
	}
	switch l.VK {
	case "i8", "i16", "i32", "i64":
		return []any{l.I}
	case "u8", "u16", "u32", "u64":
		return []any{l.U}
	case "f32":
		return []any{float64(float32(math.Float64frombits(l.FB)))}
	case "f64":
		return []any{math.Float64frombits(l.FB)}
	case "str":
		return []any{l.S}
	case "bool":
		return []any{l.B}
	}
	return nil
}

func (l Leg) kindName() string {
	switch hydrapb.Relational_Operator(l.Op) {
	case hydrapb.Relational_EQUAL:
		return "Equal"
	case hydrapb.Relational_STRING_IN:
		return "STRING_IN"
	case hydrapb.Relational_INT32_IN:
		return "INT32_IN"
	case hydrapb.Relational_INT64_IN:
		return "INT64_IN"
	}
	return hydrapb.Relational_Operator(l.Op).String()
}

// filterKind is the class of the reference value (signature component f=).
func (l Leg) filterKind() string {
	switch l.VK {
	case "i8", "i16", "i32", "i64":
		return "int"
	case "u8", "u16", "u32", "u64":
		return "uint"
	case "f32", "f64":
		return "float"
	case "str":
		return "string"
	case "bool":
		return "bool"
	}
	return "set"
}

func (l Leg) indexableShape() bool {
	if l.Path == nil || *l.Path == "" {
		return false
	}
	switch hydrapb.Relational_Operator(l.Op) {
	case hydrapb.Relational_EQUAL:
		return l.VK != "" && l.VK != "created"
	case hydrapb.Relational_STRING_IN:
		return len(l.Strs) > 0
	case hydrapb.Relational_INT32_IN:
		return len(l.I32s) > 0
	case hydrapb.Relational_INT64_IN:
		return len(l.I64s) > 0
	}
	return false
}

// ---------------------------------------------------------------------------
// generator

type gen struct {
	r    *rand.Rand
	used map[string][]mv // values written at plain / dotted paths so far (filters aim at them)
}

func (g *gen) note(path string, v mv) mv {
	if len(g.used[path]) < 64 {
		g.used[path] = append(g.used[path], v)
	}
	return v
}

func (g *gen) p(pct int) bool { return g.r.IntN(100) < pct }

func pick[T any](g *gen, s []T) T { return s[g.r.IntN(len(s))] }

var hotScalars = []func() mv{
	func() mv { return mvFix(5) }, func() mv { return mvFix(5) }, func() mv { return mvFix(1) }, func() mv { return mvFix(0) },
	func() mv { return mvI64(5) }, func() mv { return mvI16(5) }, func() mv { return mvU8(5) }, func() mv { return mvU64(5) },
	func() mv { return mvU32(1) },
	func() mv { return mvF64(5) }, func() mv { return mvF32(5) }, func() mv { return mvF64(5.5) }, func() mv { return mvF64(5.7) },
	func() mv { return mvF32(5.5) }, func() mv { return mvF64(1) }, func() mv { return mvF64(0) }, func() mv { return mvF64(math.Copysign(0, -1)) },
	func() mv { return mvF64(0.5) },
	func() mv { return mvStr("x") }, func() mv { return mvStr("y") }, func() mv { return mvStr("5") }, func() mv { return mvStr("") },
	func() mv { return mvBool(true) }, func() mv { return mvBool(false) }, func() mv { return mvNil() },
}

var coldScalars = []func() mv{
	func() mv { return mvFix(-5) }, func() mv { return mvFix(-1) }, func() mv { return mvI8(-100) }, func() mv { return mvFix(42) },
	func() mv { return mvI16(1000) }, func() mv { return mvI32(1 << 30) }, func() mv { return mvI64(1 << 53) },
	func() mv { return mvI64(1<<53 + 1) }, func() mv { return mvI64(math.MaxInt64) }, func() mv { return mvI64(math.MinInt64) },
	func() mv { return mvI64(baseUnix) }, func() mv { return mvU32(baseUnix) },
	func() mv { return mvU16(1000) }, func() mv { return mvU64(1 << 53) }, func() mv { return mvU64(1<<53 + 1) },
	func() mv { return mvU64(1 << 63) }, func() mv { return mvU64(math.MaxUint64) }, func() mv { return mvU8(42) },
	func() mv { return mvF64(-5) }, func() mv { return mvF64(-5.5) }, func() mv { return mvF64(42) }, func() mv { return mvF64(0.1) },
	func() mv { return mvF32(0.1) }, func() mv { return mvF64(two53) }, func() mv { return mvF64(1e30) }, func() mv { return mvF64(-1e30) },
	func() mv { return mvF64(math.NaN()) }, func() mv { return mvF64(math.Inf(1)) }, func() mv { return mvF64(baseUnix) },
	func() mv { return mvF64(9.223372036854775807e18) },
	func() mv { return mvStr("z") }, func() mv { return mvStr("true") }, func() mv { return mvStr("acme") }, func() mv { return mvStr("X") },
	func() mv { return mvTime(baseUnix) }, func() mv { return mvTime(baseUnix + 5) },
	func() mv { return mvMap(kv{"k", mvFix(1)}) }, func() mv { return mvArr(mvFix(5), mvStr("x")) }, func() mv { return mvArr() },
}

func (g *gen) scalar() mv {
	if g.p(65) {
		return pick(g, hotScalars)()
	}
	return pick(g, coldScalars)()
}

var lowCard = []func() mv{
	func() mv { return mvStr("x") }, func() mv { return mvStr("x") }, func() mv { return mvStr("y") }, func() mv { return mvStr("z") },
	func() mv { return mvFix(1) }, func() mv { return mvFix(2) },
}

func (g *gen) body() (mv, string) {
	var ent []kv
	if g.p(88) {
		ent = append(ent, kv{"a", g.note("a", g.scalar())})
	}
	if g.p(92) {
		ent = append(ent, kv{"b", g.note("b", pick(g, lowCard)())})
	}
	if g.p(85) {
		if g.p(90) {
			ent = append(ent, kv{"r", mvFix(g.r.IntN(21))})
		} else {
			ent = append(ent, kv{"r", mvF64(float64(g.r.IntN(40)) / 2)})
		}
	}
	switch x := g.r.IntN(100); {
	case x < 70:
		inner := []kv{}
		if g.p(85) {
			inner = append(inner, kv{"c", g.note("n.c", g.scalar())})
		}
		if g.p(70) {
			inner = append(inner, kv{"d", mvMap(kv{"e", g.note("n.d.e", g.scalar())})})
		}
		ent = append(ent, kv{"n", mvMap(inner...)})
	case x < 78:
		ent = append(ent, kv{"n", g.scalar()})
	case x < 83:
		ent = append(ent, kv{"n", mvArr(g.scalar())})
	}
	switch x := g.r.IntN(100); {
	case x < 40:
		var el []mv
		for i, n := 0, g.r.IntN(5); i < n; i++ {
			el = append(el, g.scalar())
		}
		ent = append(ent, kv{"t", mvArr(el...)})
	case x < 65:
		var el []mv
		for i, n := 0, g.r.IntN(4); i < n; i++ {
			if g.p(85) {
				el = append(el, mvMap(kv{"v", g.scalar()}))
			} else {
				el = append(el, g.scalar())
			}
		}
		ent = append(ent, kv{"t", mvArr(el...)})
	case x < 70:
		ent = append(ent, kv{"t", g.scalar()})
	case x < 74:
		ent = append(ent, kv{"t", mvNil()})
	}
	if g.p(35) {
		ent = append(ent, kv{"tm", g.note("tm", mvTime(uint32(baseUnix+g.r.IntN(4))))})
	}
	// shuffle the entry order (map order must not matter)
	g.r.Shuffle(len(ent), func(i, j int) { ent[i], ent[j] = ent[j], ent[i] })
	m := mvMap(ent...)
	return m, m.d
}

func (g *gen) record(key string, times *timeGen) KVSpec {
	k := KVSpec{Key: key}
	switch x := g.r.IntN(100); {
	case x < 90:
		m, d := g.body()
		k.Content, k.Body, k.Desc = "map", withMagic(m.b), d
	case x < 93:
		m, d := g.body()
		k.Content, k.Body, k.Desc = "noprefix", m.b, "noprefix "+d
	case x < 95:
		a := mvArr(mvFix(5), mvStr("x"))
		k.Content, k.Body, k.Desc = "nonmap", withMagic(a.b), "nonmap "+a.d
	case x < 97:
		k.Content, k.Body, k.Desc = "garbage", withMagic([]byte{0x85, 0xa1, 'a', 0xc1, 0xff}), "garbage"
	default:
		k.Content, k.Str, k.Desc = "string", "x", `StringVal "x"`
	}
	k.Created, k.Updated, k.Expired = times.next(g), times.next(g), times.next(g)
	return k
}

// timeGen hands out record timestamps: either all distinct or deliberately tied; some zero.
type timeGen struct {
	unique bool
	n      int64
}

func (t *timeGen) next(g *gen) int64 {
	if g.p(15) {
		return 0
	}
	t.n++
	if t.unique {
		// distinct, but not monotone in key order
		return (baseUnix+3600)*1e9 + ((t.n*7919)%100003)*1e6
	}
	return (baseUnix+3600)*1e9 + int64(g.r.IntN(6))*1e9
}

var (
	pathsPlain    = []string{"a", "a", "a", "a", "b", "b", "b", "r", "r", "tm", "tm", "zzz"}
	pathsDotted   = []string{"n.c", "n.c", "n.c", "n.d.e", "n.d.e", "a.x"}
	pathsWildcard = []string{"t[*]", "t[*].v"}
	pathsLen      = []string{"t.#len", "n.#len"}
)

func (g *gen) path() string {
	switch x := g.r.IntN(100); {
	case x < 55:
		return pick(g, pathsPlain)
	case x < 80:
		return pick(g, pathsDotted)
	case x < 91:
		return pick(g, pathsWildcard)
	}
	return pick(g, pathsLen)
}

func f64leg(path string, f float64) Leg {
	return Leg{Op: int32(hydrapb.Relational_EQUAL), Path: sp(path), VK: "f64", FB: math.Float64bits(f)}
}
func ileg(path, vk string, i int64) Leg {
	return Leg{Op: int32(hydrapb.Relational_EQUAL), Path: sp(path), VK: vk, I: i}
}
func uleg(path, vk string, u uint64) Leg {
	return Leg{Op: int32(hydrapb.Relational_EQUAL), Path: sp(path), VK: vk, U: u}
}
func sleg(path, s string) Leg {
	return Leg{Op: int32(hydrapb.Relational_EQUAL), Path: sp(path), VK: "str", S: s}
}

// legFor derives an Equal / IN leg whose reference value is (or truncates to, or widens to) a
// value some record carries at path: same kind, or another numeric kind of the same magnitude.
func (g *gen) legFor(path string, v mv) (Leg, bool) {
	in64 := func(i int64) Leg {
		return Leg{Op: int32(hydrapb.Relational_INT64_IN), Path: sp(path), I64s: append([]int64{i}, g.subset64([]int64{0, 1, 5, 42, -5}, 0, 2)...)}
	}
	ivk := func(i int64) string {
		fit := []string{"i64"}
		if i >= math.MinInt32 && i <= math.MaxInt32 {
			fit = append(fit, "i32")
		}
		if i >= math.MinInt16 && i <= math.MaxInt16 {
			fit = append(fit, "i16")
		}
		if i >= math.MinInt8 && i <= math.MaxInt8 {
			fit = append(fit, "i8")
		}
		return pick(g, fit)
	}
	uvk := func(u uint64) string {
		fit := []string{"u64"}
		if u <= math.MaxUint32 {
			fit = append(fit, "u32")
		}
		if u <= math.MaxUint16 {
			fit = append(fit, "u16")
		}
		if u <= math.MaxUint8 {
			fit = append(fit, "u8")
		}
		return pick(g, fit)
	}
	switch v.k {
	case "int", "time":
		switch g.r.IntN(5) {
		case 0:
			if v.i >= 0 {
				return uleg(path, uvk(uint64(v.i)), uint64(v.i)), true
			}
		case 1:
			return f64leg(path, float64(v.i)), true
		case 2:
			return in64(v.i), true
		}
		return ileg(path, ivk(v.i), v.i), true
	case "uint":
		switch g.r.IntN(5) {
		case 0, 1:
			if v.u <= math.MaxInt64 {
				if g.p(50) {
					return in64(int64(v.u)), true
				}
				return ileg(path, ivk(int64(v.u)), int64(v.u)), true
			}
		case 2:
			return f64leg(path, float64(v.u)), true
		}
		return uleg(path, uvk(v.u), v.u), true
	case "float":
		t := math.Trunc(v.f)
		inRange := !math.IsNaN(v.f) && math.Abs(t) < 9e18
		switch g.r.IntN(6) {
		case 0:
			if inRange {
				return ileg(path, ivk(int64(t)), int64(t)), true
			}
		case 1:
			if inRange && t >= 0 {
				return uleg(path, uvk(uint64(t)), uint64(t)), true
			}
		case 2:
			if inRange {
				return in64(int64(t)), true
			}
		case 3:
			if float64(float32(v.f)) == v.f {
				return Leg{Op: int32(hydrapb.Relational_EQUAL), Path: sp(path), VK: "f32", FB: math.Float64bits(v.f)}, true
			}
		}
		return f64leg(path, v.f), true
	case "str":
		if g.p(30) {
			return Leg{Op: int32(hydrapb.Relational_STRING_IN), Path: sp(path), Strs: append([]string{v.s}, g.subset([]string{"q", "y", "acme"}, 0, 2)...)}, true
		}
		return sleg(path, v.s), true
	case "bool":
		return Leg{Op: int32(hydrapb.Relational_EQUAL), Path: sp(path), VK: "bool", B: v.bv}, true
	}
	return Leg{}, false
}

// indexableLeg generates an Equal / IN leg on path with a reference value likely to hit.
func (g *gen) indexableLeg(path string) Leg {
	eq := int32(hydrapb.Relational_EQUAL)
	if u := g.used[path]; len(u) > 0 && g.p(72) {
		if l, ok := g.legFor(path, pick(g, u)); ok {
			return l
		}
	}
	switch path {
	case "b":
		switch g.r.IntN(6) {
		case 0:
			return Leg{Op: int32(hydrapb.Relational_STRING_IN), Path: sp(path), Strs: g.subset([]string{"x", "y", "z", "q"}, 1, 3)}
		case 1:
			return Leg{Op: int32(hydrapb.Relational_INT32_IN), Path: sp(path), I32s: []int32{1, 2}[:1+g.r.IntN(2)]}
		case 2:
			return ileg(path, pick(g, []string{"i8", "i32", "i64"}), int64(1+g.r.IntN(2)))
		}
		return sleg(path, pick(g, []string{"x", "x", "y", "z"}))
	case "r":
		switch g.r.IntN(4) {
		case 0:
			return Leg{Op: int32(hydrapb.Relational_INT64_IN), Path: sp(path), I64s: []int64{int64(g.r.IntN(21)), int64(g.r.IntN(21)), int64(g.r.IntN(21))}}
		case 1:
			return f64leg(path, float64(g.r.IntN(21)))
		}
		return ileg(path, pick(g, []string{"i8", "i16", "i32", "i64"}), int64(g.r.IntN(21)))
	case "tm":
		u := int64(baseUnix + g.r.IntN(4))
		switch g.r.IntN(4) {
		case 0:
			return f64leg(path, float64(u))
		case 1:
			return uleg(path, "u64", uint64(u))
		case 2:
			return Leg{Op: int32(hydrapb.Relational_INT64_IN), Path: sp(path), I64s: []int64{u, u + 1}}
		}
		return ileg(path, "i64", u)
	case "t.#len", "n.#len":
		switch g.r.IntN(3) {
		case 0:
			return Leg{Op: int32(hydrapb.Relational_INT32_IN), Path: sp(path), I32s: []int32{int32(g.r.IntN(4)), int32(g.r.IntN(4))}}
		case 1:
			return uleg(path, "u8", uint64(g.r.IntN(4)))
		}
		return ileg(path, pick(g, []string{"i8", "i64"}), int64(g.r.IntN(4)))
	}
	// generic scalar paths
	hot := g.p(70)
	switch x := g.r.IntN(100); {
	case x < 30: // signed
		vk := pick(g, []string{"i8", "i16", "i32", "i64", "i64"})
		v := pick(g, []int64{5, 5, 5, 1, 0})
		if !hot {
			v = pick(g, []int64{-5, -1, 42, -100, 1000})
			if vk == "i32" || vk == "i64" {
				v = pick(g, []int64{1 << 30, baseUnix, -5, 42, 1000})
			}
			if vk == "i64" {
				v = pick(g, []int64{1 << 53, 1<<53 + 1, math.MaxInt64, math.MinInt64, baseUnix, baseUnix + 5, -5})
			}
		}
		return Leg{Op: eq, Path: sp(path), VK: vk, I: v}
	case x < 45: // unsigned
		vk := pick(g, []string{"u8", "u16", "u32", "u64", "u64"})
		v := pick(g, []uint64{5, 5, 1, 0})
		if !hot {
			v = pick(g, []uint64{42, 1, 5})
			if vk == "u16" {
				v = 1000
			}
			if vk == "u32" {
				v = pick(g, []uint64{baseUnix, 1 << 30})
			}
			if vk == "u64" {
				v = pick(g, []uint64{1 << 53, 1<<53 + 1, 1 << 63, math.MaxUint64, baseUnix})
			}
		}
		return Leg{Op: eq, Path: sp(path), VK: vk, U: v}
	case x < 62: // float
		if g.p(25) {
			f := pick(g, []float64{5, 5.5, 0.1, 1})
			return Leg{Op: eq, Path: sp(path), VK: "f32", FB: math.Float64bits(float64(float32(f)))}
		}
		f := pick(g, []float64{5, 5, 5.5, 5.7, 1, 0, 0.5})
		if !hot {
			f = pick(g, []float64{-5, -5.5, 42, 0.1, two53, 1e30, -1e30, math.NaN(), math.Inf(1), baseUnix, baseUnix + 5, 9.223372036854775807e18, math.Copysign(0, -1)})
		}
		return f64leg(path, f)
	case x < 74:
		return sleg(path, pick(g, []string{"x", "x", "y", "5", "", "z", "true", "acme", "X"}))
	case x < 80:
		return Leg{Op: eq, Path: sp(path), VK: "bool", B: g.p(50)}
	case x < 87:
		return Leg{Op: int32(hydrapb.Relational_STRING_IN), Path: sp(path), Strs: g.subset([]string{"x", "y", "5", "", "acme", "z"}, 1, 3)}
	case x < 93:
		return Leg{Op: int32(hydrapb.Relational_INT32_IN), Path: sp(path), I32s: g.subset32([]int32{5, 1, 0, -5, 42, 1000}, 1, 3)}
	}
	return Leg{Op: int32(hydrapb.Relational_INT64_IN), Path: sp(path), I64s: g.subset64([]int64{5, 1, 0, 1 << 53, 1<<53 + 1, math.MinInt64, math.MaxInt64, baseUnix, baseUnix + 5}, 1, 4)}
}

func (g *gen) subset(s []string, lo, hi int) []string {
	n := lo + g.r.IntN(hi-lo+1)
	p := g.r.Perm(len(s))
	o := make([]string, 0, n)
	for _, i := range p[:n] {
		o = append(o, s[i])
	}
	return o
}
func (g *gen) subset32(s []int32, lo, hi int) []int32 {
	n := lo + g.r.IntN(hi-lo+1)
	p := g.r.Perm(len(s))
	o := make([]int32, 0, n)
	for _, i := range p[:n] {
		o = append(o, s[i])
	}
	return o
}
func (g *gen) subset64(s []int64, lo, hi int) []int64 {
	n := lo + g.r.IntN(hi-lo+1)
	p := g.r.Perm(len(s))
	o := make([]int64, 0, n)
	for _, i := range p[:n] {
		o = append(o, s[i])
	}
	return o
}

// residualLeg generates a leg the planner cannot index.
func (g *gen) residualLeg() Leg {
	switch g.r.IntN(7) {
	case 0:
		return Leg{Op: int32(hydrapb.Relational_GREATER_THAN), Path: sp("r"), VK: "i64", I: int64(g.r.IntN(12))}
	case 1:
		return Leg{Op: int32(hydrapb.Relational_LESS_THAN_OR_EQUAL), Path: sp("r"), VK: "i32", I: int64(6 + g.r.IntN(15))}
	case 2:
		return Leg{Op: int32(hydrapb.Relational_GREATER_THAN_OR_EQUAL), Path: sp("r"), VK: "f64", FB: math.Float64bits(float64(g.r.IntN(10)))}
	case 3:
		return Leg{Op: int32(hydrapb.Relational_NOT_EQUAL), Path: sp("b"), VK: "str", S: pick(g, []string{"x", "y", "q"})}
	case 4:
		return Leg{Op: int32(hydrapb.Relational_IS_NOT_EMPTY), Path: sp(pick(g, []string{"a", "n.c", "t"})), VK: "str", S: ""}
	case 5:
		return Leg{Op: int32(hydrapb.Relational_LESS_THAN), Path: sp("r"), VK: "i8", I: int64(8 + g.r.IntN(14))}
	}
	return Leg{Op: int32(hydrapb.Relational_GREATER_THAN), VK: "created", I: (baseUnix + 3600) * 1e9}
}

type qctx struct {
	hotPath string
	keys    []string
	times   []int64 // nonzero record timestamps seen so far
}

func (g *gen) qpath(c *qctx) string {
	if g.p(60) {
		return c.hotPath
	}
	return g.path()
}

func (g *gen) label(n *int) string {
	if !g.p(35) {
		return ""
	}
	*n++
	return fmt.Sprintf("L%d", *n)
}

func (g *gen) filter(c *qctx, simple bool) FNode {
	nl := 0
	lab := func(l Leg) Leg { l.Label = g.label(&nl); return l }
	if simple {
		p := c.hotPath
		if g.p(40) || pathSyntax(p) == "wildcard" || pathSyntax(p) == "len" {
			p = pick(g, append(append([]string{}, pathsPlain...), pathsDotted...))
		}
		l := g.indexableLeg(p)
		if g.p(20) {
			l = lab(l)
		}
		return FNode{Legs: []Leg{l}}
	}
	switch x := g.r.IntN(100); {
	case x < 22: // single indexable leg
		return FNode{Legs: []Leg{lab(g.indexableLeg(g.qpath(c)))}}
	case x < 52: // AND of one indexable leg and other legs, in any position
		legs := []Leg{lab(g.indexableLeg(g.qpath(c)))}
		for i, n := 0, 1+g.r.IntN(2); i < n; i++ {
			if g.p(25) {
				legs = append(legs, lab(g.indexableLeg(g.qpath(c))))
			} else {
				legs = append(legs, lab(g.residualLeg()))
			}
		}
		g.r.Shuffle(len(legs), func(i, j int) { legs[i], legs[j] = legs[j], legs[i] })
		n := FNode{Legs: legs}
		if g.p(12) {
			n.Nested = []NestedSpec{{SlicePath: "t", Cond: g.indexableLeg("v"), Mode: int32(g.r.IntN(3)), Label: g.label(&nl)}}
		}
		return n
	case x < 74: // OR of indexable legs
		legs := []Leg{}
		for i, n := 0, 2+g.r.IntN(2); i < n; i++ {
			legs = append(legs, lab(g.indexableLeg(g.qpath(c))))
		}
		return FNode{Or: true, Legs: legs}
	case x < 88: // AND{residual..., SubGroups:[OR{indexable...}, ...]}
		or := FNode{Or: true, Legs: []Leg{lab(g.indexableLeg(g.qpath(c))), lab(g.indexableLeg(g.qpath(c)))}}
		n := FNode{Subs: []FNode{or}}
		for i, k := 0, g.r.IntN(3); i < k; i++ {
			n.Legs = append(n.Legs, lab(g.residualLeg()))
		}
		if g.p(25) {
			n.Subs = append(n.Subs, FNode{Or: true, Legs: []Leg{lab(g.residualLeg()), lab(g.indexableLeg(g.qpath(c)))}})
			if g.p(50) {
				n.Subs[0], n.Subs[1] = n.Subs[1], n.Subs[0]
			}
		}
		return n
	case x < 94: // AND{indexable, SubGroups:[OR{residual, indexable}]}
		return FNode{Legs: []Leg{lab(g.indexableLeg(g.qpath(c)))},
			Subs: []FNode{{Or: true, Legs: []Leg{lab(g.residualLeg()), lab(g.indexableLeg(g.qpath(c)))}}}}
	}
	// shapes the planner does not index (trivial pairs; they validate the wrappers)
	if g.p(50) {
		return FNode{Or: true, Legs: []Leg{lab(g.indexableLeg(g.qpath(c))), lab(g.residualLeg())}}
	}
	return FNode{Legs: []Leg{lab(g.residualLeg()), lab(g.residualLeg())}}
}

func (g *gen) query(c *qctx, simple bool) *Query {
	q := &Query{F: g.filter(c, simple), Simple: simple, BypassFirst: g.p(50)}
	if simple {
		return q
	}
	n := len(c.keys)
	q.Idx = int32(pick(g, []hydrapb.IndexType_Type{hydrapb.IndexType_KEY, hydrapb.IndexType_KEY, hydrapb.IndexType_CREATION_TIME,
		hydrapb.IndexType_UPDATE_TIME, hydrapb.IndexType_EXPIRATION_TIME}))
	q.Desc = g.p(50)
	if g.p(35) {
		q.From = int32(1 + g.r.IntN(n/3+1))
	}
	if g.p(40) {
		q.Limit = int32(2 + g.r.IntN(n+2))
	}
	if g.p(22) {
		q.MaxResults = int32(1 + g.r.IntN(4))
	}
	tw := 10
	if q.Idx != int32(hydrapb.IndexType_KEY) {
		tw = 30
	}
	if g.p(tw) && len(c.times) > 0 {
		pt := func() *int64 {
			v := pick(g, c.times)
			switch g.r.IntN(3) {
			case 0:
				v += 1
			case 1:
				v -= 5e5
			}
			return &v
		}
		switch g.r.IntN(3) {
		case 0:
			q.FromNs = pt()
		case 1:
			q.ToNs = pt()
		default:
			q.FromNs, q.ToNs = pt(), pt()
			if *q.FromNs > *q.ToNs && g.p(85) {
				q.FromNs, q.ToNs = q.ToNs, q.FromNs
			}
		}
	}
	q.KeysOnly = g.p(12)
	if g.p(8) {
		q.Include = g.subset(c.keys, 1, max(1, n/2))
	}
	if g.p(10) {
		q.Exclude = g.subset(c.keys, 1, max(1, n/3))
	}
	return q
}

func (g *gen) patchOps() []POp {
	var ops []POp
	for i, n := 0, 1+g.r.IntN(2); i < n; i++ {
		switch g.r.IntN(8) {
		case 0, 1, 2:
			p := pick(g, []string{"a", "a", "b", "n.c", "n.d.e", "r", "tm"})
			v := g.scalar()
			if p == "b" {
				v = pick(g, lowCard)()
			}
			g.note(p, v)
			ops = append(ops, POp{Kind: int32(hydrapb.PatchOp_SET), Path: p, Value: v.b, Desc: "SET " + p + "=" + v.d})
		case 3:
			p := pick(g, []string{"a", "n", "t", "n.c", "b"})
			ops = append(ops, POp{Kind: int32(hydrapb.PatchOp_DELETE), Path: p, Desc: "DELETE " + p})
		case 4:
			ops = append(ops, POp{Kind: int32(hydrapb.PatchOp_INC), Path: pick(g, []string{"r", "a", "n.c"}), Value: mvFix(1).b, Desc: "INC +1"})
		case 5:
			v := g.scalar()
			ops = append(ops, POp{Kind: int32(hydrapb.PatchOp_APPEND), Path: "t[]", Value: v.b, Desc: "APPEND t[] " + v.d})
		case 6:
			v := mvMap(kv{"c", g.scalar()})
			ops = append(ops, POp{Kind: int32(hydrapb.PatchOp_MERGE), Path: "n", Value: v.b, Desc: "MERGE n " + v.d})
		default:
			ops = append(ops, POp{Kind: int32(hydrapb.PatchOp_REMOVE_AT), Path: "t[0]", Desc: "REMOVE_AT t[0]"})
		}
	}
	return ops
}

// genCase builds one swamp history with four route-pair queries.
func genCase(r *rand.Rand, idx int) Case {
	g := &gen{r: r, used: map[string][]mv{}}
	cs := Case{Idx: idx, Mem: g.p(50)}
	if cs.Mem {
		cs.Swamp = fmt.Sprintf("c08m/s/w%d", idx)
	} else {
		cs.Swamp = fmt.Sprintf("c08d/s/w%d", idx)
	}
	tg := &timeGen{unique: g.p(72)}
	nrec := 3 + g.r.IntN(28)
	live := map[string]bool{}
	nextKey := 0
	newKey := func() string {
		nextKey++
		switch g.r.IntN(12) {
		case 0:
			return fmt.Sprintf("K%d", nextKey)
		case 1:
			return fmt.Sprintf("k%d", nextKey)
		}
		return fmt.Sprintf("k%02d", nextKey)
	}
	qc := &qctx{hotPath: g.path()}
	noteTimes := func(k KVSpec) {
		for _, v := range []int64{k.Created, k.Updated, k.Expired} {
			if v != 0 {
				qc.times = append(qc.times, v)
			}
		}
	}
	liveKeys := func() []string {
		o := make([]string, 0, len(live))
		for k := range live {
			o = append(o, k)
		}
		sort.Strings(o)
		return o
	}
	var first Step
	first.Op = "set"
	for i := 0; i < nrec; i++ {
		k := g.record(newKey(), tg)
		live[k.Key] = true
		noteTimes(k)
		first.KVs = append(first.KVs, k)
	}
	cs.Steps = append(cs.Steps, first)

	mutate := func() {
		keys := liveKeys()
		switch g.r.IntN(10) {
		case 0, 1, 2: // overwrite existing records with new bodies / metadata
			st := Step{Op: "set"}
			for _, k := range g.subset(keys, 1, min(4, len(keys))) {
				kv := g.record(k, tg)
				noteTimes(kv)
				st.KVs = append(st.KVs, kv)
			}
			cs.Steps = append(cs.Steps, st)
		case 3, 4: // new inserts
			st := Step{Op: "set"}
			for i, n := 0, 1+g.r.IntN(3); i < n; i++ {
				kv := g.record(newKey(), tg)
				live[kv.Key] = true
				noteTimes(kv)
				st.KVs = append(st.KVs, kv)
			}
			cs.Steps = append(cs.Steps, st)
		case 5, 6, 7: // structural patch
			st := Step{Op: "patch", Create: g.p(15)}
			for _, k := range g.subset(keys, 1, min(4, len(keys))) {
				ps := PatchSpec{Key: k, Ops: g.patchOps()}
				if g.p(20) {
					ps.Expired = tg.next(g)
					if ps.Expired != 0 {
						qc.times = append(qc.times, ps.Expired)
					}
				}
				st.Patches = append(st.Patches, ps)
			}
			if st.Create && g.p(60) {
				k := newKey()
				live[k] = true
				st.Patches = append(st.Patches, PatchSpec{Key: k, Ops: g.patchOps()})
			}
			cs.Steps = append(cs.Steps, st)
		default: // delete (never the last record: an empty swamp is torn down)
			if len(keys) < 3 {
				return
			}
			st := Step{Op: "delete", Keys: g.subset(keys, 1, min(3, len(keys)-2))}
			for _, k := range st.Keys {
				delete(live, k)
			}
			cs.Steps = append(cs.Steps, st)
		}
	}
	addQuery := func() {
		qc.keys = liveKeys()
		cs.Steps = append(cs.Steps, Step{Op: "query", Q: g.query(qc, g.p(30))})
	}
	if g.p(50) {
		for i, n := 0, 1+g.r.IntN(3); i < n; i++ {
			mutate()
		}
	}
	addQuery()
	if g.p(80) {
		for i, n := 0, 1+g.r.IntN(4); i < n; i++ {
			mutate()
		}
	}
	addQuery()
	if !cs.Mem && g.p(40) {
		cs.Steps = append(cs.Steps, Step{Op: "evict"})
	}
	addQuery()
	if g.p(50) {
		for i, n := 0, 1+g.r.IntN(2); i < n; i++ {
			mutate()
		}
	}
	addQuery()
	return cs
}
