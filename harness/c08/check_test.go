// C08 — accelerated and full-scan query routes agree.
//
// Monitor: generated swamp histories (msgpack map bodies with fields of every canonical value
// kind, mutated by Set overwrite / PatchTreasures / Delete / new inserts before and after the
// first bucket build, optionally evicted and re-summoned) are queried through the real
// gateway.GetByIndexStream with generated filter trees and paging. Every request is issued as
// is and with the filter wrapped in a semantically neutral group that the planner cannot index
// (OR{SubGroups:[F]} and AND{SubGroups:[AND{SubGroups:[F]}]}). gateway.PlanFilter tells which
// route each form takes; pairs that took different routes must stream the same records in the
// same order (up to equal sort keys) with the same payload and MatchedLabels. A mismatch is
// reduced (request features dropped one by one, filter cut down to a single leg if that still
// disagrees) and named by what remains. Single-leg Equal/IN queries are additionally held against
// valuecanon.Equal on the decoded field values (and valuecanon.Equal against its documented
// rule), and every pair is re-issued through single-query GetByIndexStreamFromMany, which
// duplicates the routing code.
package c08

import (
	"context"
	"encoding/hex"
	"fmt"
	"hash/fnv"
	"math"
	"math/big"
	"os"
	"strings"
	"testing"
	"testing/synctest"
	"time"

	"github.com/hydraide/hydraide/app/core/hydra/swamp/bucket/valuecanon"
	"github.com/hydraide/hydraide/app/name"
	"github.com/hydraide/hydraide/app/server/gateway"
	hydrapb "github.com/hydraide/hydraide/sdk/go/hydraidego/v3/hydraidepbgo"
	"github.com/vmihailenco/msgpack/v5"
	"google.golang.org/grpc/metadata"
	"google.golang.org/protobuf/encoding/protojson"
	"google.golang.org/protobuf/proto"
	"google.golang.org/protobuf/types/known/timestamppb"

	"verifharness/rig"
)

func nsTime(ns int64) time.Time { return time.Unix(0, ns).UTC() }

// ---------------------------------------------------------------------------
// fake server stream

type fakeStream struct {
	ctx  context.Context
	msgs []*hydrapb.GetByIndexStreamResponse
}

func (s *fakeStream) Send(m *hydrapb.GetByIndexStreamResponse) error {
	s.msgs = append(s.msgs, proto.Clone(m).(*hydrapb.GetByIndexStreamResponse))
	return nil
}
func (s *fakeStream) SetHeader(metadata.MD) error  { return nil }
func (s *fakeStream) SendHeader(metadata.MD) error { return nil }
func (s *fakeStream) SetTrailer(metadata.MD)       {}
func (s *fakeStream) Context() context.Context     { return s.ctx }
func (s *fakeStream) SendMsg(m any) error {
	if r, ok := m.(*hydrapb.GetByIndexStreamResponse); ok {
		return s.Send(r)
	}
	return nil
}
func (s *fakeStream) RecvMsg(any) error { return nil }

type fakeManyStream struct {
	ctx  context.Context
	msgs []*hydrapb.GetByIndexStreamFromManyResponse
}

func (s *fakeManyStream) Send(m *hydrapb.GetByIndexStreamFromManyResponse) error {
	s.msgs = append(s.msgs, proto.Clone(m).(*hydrapb.GetByIndexStreamFromManyResponse))
	return nil
}
func (s *fakeManyStream) SetHeader(metadata.MD) error  { return nil }
func (s *fakeManyStream) SendHeader(metadata.MD) error { return nil }
func (s *fakeManyStream) SetTrailer(metadata.MD)       {}
func (s *fakeManyStream) Context() context.Context     { return s.ctx }
func (s *fakeManyStream) SendMsg(m any) error {
	if r, ok := m.(*hydrapb.GetByIndexStreamFromManyResponse); ok {
		return s.Send(r)
	}
	return nil
}
func (s *fakeManyStream) RecvMsg(any) error { return nil }

// ---------------------------------------------------------------------------
// execution

type item struct {
	key    string
	tr     *hydrapb.Treasure
	labels []string // sorted
	scores int
}

type result struct {
	items  []item
	err    error
	panics int
}

func (r result) keys() []string {
	o := make([]string, len(r.items))
	for i, it := range r.items {
		o[i] = it.key
	}
	return o
}

type exec struct {
	t     *testing.T
	c     *rig.Check
	r     *rig.Rig
	cs    Case
	built map[string]int // field path -> mutations applied since its bucket was built (this summon)
	snap  map[string]*hydrapb.Treasure
	skeys []string
	// stale time index (set per mismatching pair): records the unfiltered index stream misplaces
	stale      map[string]bool
	staleOrder bool
}

func (x *exec) island() uint64 { return rig.Island(x.cs.Swamp) }

// cloneFG gives every request (and every planner prediction) its own filter objects, as a
// request decoded from the wire has: the wrapped forms share sub-groups with the plain form, so
// an engine that edits a request's filter group in place would otherwise change the *other*
// requests of the pair before they are sent.
func cloneFG(fg *hydrapb.FilterGroup) *hydrapb.FilterGroup {
	if fg == nil {
		return nil
	}
	return proto.Clone(fg).(*hydrapb.FilterGroup)
}

func (x *exec) stream(q *Query, fg *hydrapb.FilterGroup) result {
	fg = cloneFG(fg)
	req := &hydrapb.GetByIndexStreamRequest{IslandID: x.island(), SwampName: x.cs.Swamp,
		IndexType: hydrapb.IndexType_Type(q.Idx), From: q.From, Limit: q.Limit, MaxResults: q.MaxResults,
		KeysOnly: q.KeysOnly, IncludedKeys: q.Include, ExcludeKeys: q.Exclude, Filters: fg}
	if q.Desc {
		req.OrderType = hydrapb.OrderType_DESC
	}
	if q.FromNs != nil {
		req.FromTime = timestamppb.New(nsTime(*q.FromNs))
	}
	if q.ToNs != nil {
		req.ToTime = timestamppb.New(nsTime(*q.ToNs))
	}
	fs := &fakeStream{ctx: context.Background()}
	err := x.r.GW.GetByIndexStream(req, fs)
	res := result{err: err, panics: len(rig.InstallSentinel().Drain("panic"))}
	for _, m := range fs.msgs {
		it := item{key: m.GetTreasure().GetKey(), tr: m.GetTreasure()}
		if m.Meta != nil {
			it.labels = sortedCopy(m.Meta.MatchedLabels)
			it.scores = len(m.Meta.VectorScores)
		}
		res.items = append(res.items, it)
	}
	x.c.Count("streams", 1)
	return res
}

// streamMany issues the same request as a single-query GetByIndexStreamFromMany.
func (x *exec) streamMany(q *Query, fg *hydrapb.FilterGroup) result {
	fg = cloneFG(fg)
	sq := &hydrapb.SwampQuery{IslandID: x.island(), SwampName: x.cs.Swamp,
		IndexType: hydrapb.IndexType_Type(q.Idx), From: q.From, Limit: q.Limit, MaxResults: q.MaxResults,
		KeysOnly: q.KeysOnly, IncludedKeys: q.Include, ExcludeKeys: q.Exclude, Filters: fg}
	if q.Desc {
		sq.OrderType = hydrapb.OrderType_DESC
	}
	if q.FromNs != nil {
		sq.FromTime = timestamppb.New(nsTime(*q.FromNs))
	}
	if q.ToNs != nil {
		sq.ToTime = timestamppb.New(nsTime(*q.ToNs))
	}
	fs := &fakeManyStream{ctx: context.Background()}
	err := x.r.GW.GetByIndexStreamFromMany(&hydrapb.GetByIndexStreamFromManyRequest{Queries: []*hydrapb.SwampQuery{sq}}, fs)
	res := result{err: err, panics: len(rig.InstallSentinel().Drain("panic"))}
	for _, m := range fs.msgs {
		it := item{key: m.GetTreasure().GetKey(), tr: m.GetTreasure()}
		if m.Meta != nil {
			it.labels = sortedCopy(m.Meta.MatchedLabels)
			it.scores = len(m.Meta.VectorScores)
		}
		res.items = append(res.items, it)
	}
	x.c.Count("streams_from_many", 1)
	return res
}

// snapshot reads every record through an unfiltered KEY-ordered stream.
func (x *exec) snapshot() {
	res := x.stream(&Query{}, nil)
	x.snap = map[string]*hydrapb.Treasure{}
	x.skeys = nil
	for _, it := range res.items {
		x.snap[it.key] = it.tr
		x.skeys = append(x.skeys, it.key)
	}
}

func (x *exec) snapHash() string {
	h := fnv.New64a()
	for _, k := range x.skeys {
		b, _ := proto.MarshalOptions{Deterministic: true}.Marshal(x.snap[k])
		h.Write(b)
	}
	return fmt.Sprintf("%x", h.Sum64())
}

func (x *exec) bucketCount() int {
	sw, err := x.r.Zeus.GetHydra().SummonSwamp(context.Background(), x.island(), name.Load(x.cs.Swamp))
	if err != nil {
		return -1
	}
	return sw.BucketCount()
}

func (x *exec) apply(st Step) {
	ctx := context.Background()
	switch st.Op {
	case "set":
		req := &hydrapb.SwampRequest{IslandID: x.island(), SwampName: x.cs.Swamp, CreateIfNotExist: true, Overwrite: true}
		for _, k := range st.KVs {
			p := &hydrapb.KeyValuePair{Key: k.Key}
			if k.Content == "string" {
				p.StringVal = sp(k.Str)
			} else {
				p.BytesVal = k.Body
			}
			if k.Created != 0 {
				p.CreatedAt = timestamppb.New(nsTime(k.Created))
			}
			if k.Updated != 0 {
				p.UpdatedAt = timestamppb.New(nsTime(k.Updated))
			}
			if k.Expired != 0 {
				p.ExpiredAt = timestamppb.New(nsTime(k.Expired))
			}
			req.KeyValues = append(req.KeyValues, p)
		}
		if _, err := x.r.GW.Set(ctx, &hydrapb.SetRequest{Swamps: []*hydrapb.SwampRequest{req}}); err != nil {
			x.t.Fatalf("set: %v", err)
		}
		x.c.Count("mut_set_records", int64(len(st.KVs)))
	case "patch":
		req := &hydrapb.PatchTreasuresRequest{IslandID: x.island(), SwampName: x.cs.Swamp, CreateIfNotExist: st.Create}
		for _, ps := range st.Patches {
			tp := &hydrapb.TreasurePatch{Key: ps.Key}
			for _, o := range ps.Ops {
				tp.Ops = append(tp.Ops, &hydrapb.PatchOp{Op: hydrapb.PatchOp_Kind(o.Kind), Path: o.Path, Value: o.Value})
			}
			if ps.Expired != 0 {
				tp.Meta = &hydrapb.PatchMeta{SetExpiredAt: timestamppb.New(nsTime(ps.Expired))}
			}
			req.Patches = append(req.Patches, tp)
		}
		resp, err := x.r.GW.PatchTreasures(ctx, req)
		if err != nil {
			x.t.Fatalf("patch: %v", err)
		}
		for _, pr := range resp.GetResults() {
			x.c.Count("mut_patch_"+pr.GetStatus().String(), 1)
		}
	case "delete":
		if _, err := x.r.GW.Delete(ctx, &hydrapb.DeleteRequest{Swamps: []*hydrapb.DeleteRequest_SwampKeys{{IslandID: x.island(), SwampName: x.cs.Swamp, Keys: st.Keys}}}); err != nil {
			x.t.Fatalf("delete: %v", err)
		}
		x.c.Count("mut_delete_records", int64(len(st.Keys)))
	case "evict":
		time.Sleep(9 * time.Second)
		if x.r.Active() == 0 {
			x.c.Count("evictions", 1)
			x.built = map[string]int{}
		} else {
			x.c.Count("evictions_not_observed", 1)
		}
		return
	}
	for p := range x.built {
		x.built[p]++
	}
}

// ---------------------------------------------------------------------------
// planning, wrappers

func wrapOr(f *hydrapb.FilterGroup) *hydrapb.FilterGroup {
	return &hydrapb.FilterGroup{Logic: hydrapb.FilterLogic_OR, SubGroups: []*hydrapb.FilterGroup{f}}
}
func wrapAndAnd(f *hydrapb.FilterGroup) *hydrapb.FilterGroup {
	return &hydrapb.FilterGroup{Logic: hydrapb.FilterLogic_AND, SubGroups: []*hydrapb.FilterGroup{
		{Logic: hydrapb.FilterLogic_AND, SubGroups: []*hydrapb.FilterGroup{f}}}}
}

// bucketIndex reports whether the bucket route accepts the index type (the four
// non-value indexes, per the comment on bucketExecPreconditions and the feature doc).
func bucketIndex(idx int32) bool {
	switch hydrapb.IndexType_Type(idx) {
	case hydrapb.IndexType_KEY, hydrapb.IndexType_CREATION_TIME, hydrapb.IndexType_UPDATE_TIME, hydrapb.IndexType_EXPIRATION_TIME:
		return true
	}
	return false
}

func takesBucketRoute(q *Query, fg *hydrapb.FilterGroup) (gateway.Plan, bool) {
	// the prediction works on its own deep copy: whatever the planner does to its argument must
	// not reach the requests that are streamed afterwards
	pl := gateway.PlanFilter(cloneFG(fg))
	return pl, pl.Mode != gateway.PlanModeBypass && bucketIndex(q.Idx)
}

// ---------------------------------------------------------------------------
// comparison

type diff struct {
	Class   string   `json:"class"`
	Key     string   `json:"key,omitempty"` // first offending record
	Missing []string `json:"missing_on_bucket,omitempty"`
	Extra   []string `json:"extra_on_bucket,omitempty"`
	Detail  string   `json:"detail,omitempty"`
}

func tsOf(t *hydrapb.Treasure, idx int32) int64 {
	var ts *timestamppb.Timestamp
	switch hydrapb.IndexType_Type(idx) {
	case hydrapb.IndexType_CREATION_TIME:
		ts = t.GetCreatedAt()
	case hydrapb.IndexType_UPDATE_TIME:
		ts = t.GetUpdatedAt()
	case hydrapb.IndexType_EXPIRATION_TIME:
		ts = t.GetExpiredAt()
	}
	if ts == nil {
		return 0
	}
	return ts.AsTime().UnixNano()
}

func (x *exec) sortKey(k string, idx int32) string {
	if hydrapb.IndexType_Type(idx) == hydrapb.IndexType_KEY {
		return k
	}
	return fmt.Sprintf("%020d", tsOf(x.snap[k], idx))
}

func (x *exec) hasTies(idx int32) bool {
	if hydrapb.IndexType_Type(idx) == hydrapb.IndexType_KEY {
		return false
	}
	seen := map[int64]bool{}
	for _, k := range x.skeys {
		ts := tsOf(x.snap[k], idx)
		if ts == 0 {
			continue
		}
		if seen[ts] {
			return true
		}
		seen[ts] = true
	}
	return false
}

// zeroTimeTies: a stream on a time index carries records without that timestamp (they all tie
// at zero) so that their relative order, or which of them a cut keeps, is unspecified.
func (x *exec) zeroTimeTies(q *Query, rs ...result) bool {
	if hydrapb.IndexType_Type(q.Idx) == hydrapb.IndexType_KEY {
		return false
	}
	total := 0
	for _, k := range x.skeys {
		if tsOf(x.snap[k], q.Idx) == 0 {
			total++
		}
	}
	cut := q.From > 0 || q.Limit > 0 || q.MaxResults > 0
	for _, r := range rs {
		n := 0
		for _, it := range r.items {
			if tsOf(x.snap[it.key], q.Idx) == 0 {
				n++
			}
		}
		if n >= 2 || (n >= 1 && cut && total >= 2) {
			return true
		}
	}
	return false
}

// compare decides whether the bucket-route stream P and the scan-route stream W agree.
// ambiguous = records with equal sort keys exist and the request cuts the sequence
// (From/Limit/MaxResults), so the page content legitimately depends on the unspecified tie order.
func (x *exec) compare(q *Query, P, W result) (d *diff, ambiguous bool) {
	if (P.err == nil) != (W.err == nil) {
		return &diff{Class: "error", Detail: fmt.Sprintf("bucket route err=%v, scan route err=%v", P.err, W.err)}, false
	}
	if P.panics != W.panics {
		return &diff{Class: "panic", Detail: fmt.Sprintf("recovered panics: bucket route %d, scan route %d", P.panics, W.panics)}, false
	}
	inP, inW := map[string]int{}, map[string]int{}
	for i, it := range P.items {
		inP[it.key] = i
	}
	for i, it := range W.items {
		inW[it.key] = i
	}
	timeIdx := hydrapb.IndexType_Type(q.Idx) != hydrapb.IndexType_KEY
	ties := x.hasTies(q.Idx)
	if ties && (q.From > 0 || q.Limit > 0 || q.MaxResults > 0) {
		if timeIdx {
			// A record without the index's timestamp is documented not to be part of a time index;
			// no ordering of ties can put it into the scan stream.
			for _, it := range P.items {
				if _, ok := inW[it.key]; !ok && tsOf(x.snap[it.key], q.Idx) == 0 {
					return &diff{Class: "extra-on-bucket", Key: it.key, Extra: []string{it.key},
						Detail: "record without the index timestamp streamed by the bucket route only"}, false
				}
			}
		}
		return nil, true
	}
	var missing, extra []string
	for _, it := range W.items {
		if _, ok := inP[it.key]; !ok {
			missing = append(missing, it.key)
		}
	}
	for _, it := range P.items {
		if _, ok := inW[it.key]; !ok {
			extra = append(extra, it.key)
		}
	}
	if len(missing)+len(extra) > 0 || len(P.items) != len(W.items) {
		d := &diff{Missing: missing, Extra: extra}
		switch {
		case len(missing) > 0 && len(extra) > 0:
			d.Class, d.Key = "window-shift", missing[0]
		case len(missing) > 0:
			d.Class, d.Key = "missing-on-bucket", missing[0]
		case len(extra) > 0:
			d.Class, d.Key = "extra-on-bucket", extra[0]
		default:
			d.Class = "duplicates"
		}
		d.Detail = fmt.Sprintf("bucket route streamed %v, scan route streamed %v", P.keys(), W.keys())
		return d, false
	}
	for i := range P.items {
		a, b := P.items[i].key, W.items[i].key
		if (!ties && a != b) || (ties && x.sortKey(a, q.Idx) != x.sortKey(b, q.Idx)) {
			return &diff{Class: "order", Key: a, Detail: fmt.Sprintf("position %d: bucket route %v, scan route %v", i, P.keys(), W.keys())}, false
		}
	}
	for _, it := range P.items {
		o := W.items[inW[it.key]]
		if !proto.Equal(it.tr, o.tr) {
			return &diff{Class: "payload", Key: it.key, Detail: "treasure payload differs for " + it.key}, false
		}
	}
	for _, it := range P.items {
		o := W.items[inW[it.key]]
		if strings.Join(it.labels, "\x00") != strings.Join(o.labels, "\x00") || it.scores != o.scores {
			return &diff{Class: "labels", Key: it.key, Detail: fmt.Sprintf("record %s: MatchedLabels bucket route %v, scan route %v", it.key, it.labels, o.labels)}, false
		}
	}
	return nil, false
}

// ---------------------------------------------------------------------------
// attribution of a mismatch: 1-minimal request features, single-leg filter if possible

func hasLabels(n FNode) bool {
	for _, l := range n.Legs {
		if l.Label != "" {
			return true
		}
	}
	for _, ns := range n.Nested {
		if ns.Label != "" {
			return true
		}
	}
	for _, s := range n.Subs {
		if hasLabels(s) {
			return true
		}
	}
	return false
}

func stripLabels(n FNode) FNode {
	o := FNode{Or: n.Or}
	for _, l := range n.Legs {
		l.Label = ""
		o.Legs = append(o.Legs, l)
	}
	for _, ns := range n.Nested {
		ns.Label = ""
		o.Nested = append(o.Nested, ns)
	}
	for _, s := range n.Subs {
		o.Subs = append(o.Subs, stripLabels(s))
	}
	return o
}

func allLegs(n FNode, out *[]Leg) {
	*out = append(*out, n.Legs...)
	for _, s := range n.Subs {
		allLegs(s, out)
	}
}

type feature struct {
	name string
	has  func(*Query) bool
	drop func(*Query)
}

var features = []feature{
	{"labels", func(q *Query) bool { return hasLabels(q.F) }, func(q *Query) { q.F = stripLabels(q.F) }},
	{"keysonly", func(q *Query) bool { return q.KeysOnly }, func(q *Query) { q.KeysOnly = false }},
	{"keysets", func(q *Query) bool { return len(q.Include)+len(q.Exclude) > 0 }, func(q *Query) { q.Include, q.Exclude = nil, nil }},
	{"maxresults", func(q *Query) bool { return q.MaxResults > 0 }, func(q *Query) { q.MaxResults = 0 }},
	{"timewindow", func(q *Query) bool { return q.FromNs != nil || q.ToNs != nil }, func(q *Query) { q.FromNs, q.ToNs = nil, nil }},
	{"fromlimit", func(q *Query) bool { return q.From > 0 || q.Limit > 0 }, func(q *Query) { q.From, q.Limit = 0, 0 }},
}

// pairDiff issues q on both routes (bucket: as is, scan: OR-wrapped) and compares.
func (x *exec) pairDiff(q *Query) *diff {
	fg := q.F.pb()
	pl, ok := takesBucketRoute(q, fg)
	if !ok {
		return nil
	}
	for _, h := range pl.Hints { // the diagnostic query builds these buckets too
		if _, ok := x.built[h.FieldPath]; !ok {
			x.built[h.FieldPath] = 0
		}
	}
	P := x.stream(q, fg)
	W := x.stream(q, wrapOr(fg))
	d, amb := x.compare(q, P, W)
	if amb {
		return nil
	}
	return d
}

func (x *exec) reduceFeatures(q Query, d *diff) (Query, *diff) {
	for changed := true; changed; {
		changed = false
		for _, f := range features {
			if !f.has(&q) {
				continue
			}
			q2 := q
			f.drop(&q2)
			if d2 := x.pairDiff(&q2); d2 != nil {
				q, d, changed = q2, d2, true
			}
		}
	}
	return q, d
}

type attribution struct {
	Reduced Query    `json:"reduced_query"`
	Diff    *diff    `json:"reduced_diff"`
	Shape   string   `json:"shape"`
	Needs   []string `json:"needs"`
}

func shapeOf(n FNode, pl gateway.Plan) string {
	switch {
	case pl.Mode == gateway.PlanModeOrUnion:
		return "or-union"
	case len(n.Subs) > 0 && len(pl.Hints) > 0 && len(n.Legs) == len(pl.Residual.GetFilters()):
		return "and-suborunion"
	case len(n.Legs) == 1 && len(n.Subs) == 0 && len(n.Nested) == 0:
		return "single"
	}
	return "and-residual"
}

func (x *exec) attribute(q Query, d *diff) attribution {
	q, d = x.reduceFeatures(q, d)
	var legs []Leg
	allLegs(q.F, &legs)
	single := len(q.F.Legs) == 1 && len(q.F.Subs) == 0 && len(q.F.Nested) == 0 && !q.F.Or
	if !single {
		for _, l := range legs {
			if !l.indexableShape() {
				continue
			}
			q2 := q
			q2.F = FNode{Legs: []Leg{l}}
			if d2 := x.pairDiff(&q2); d2 != nil {
				q, d = x.reduceFeatures(q2, d2)
				break
			}
		}
	}
	pl, _ := takesBucketRoute(&q, q.F.pb())
	a := attribution{Reduced: q, Diff: d, Shape: shapeOf(q.F, pl)}
	for _, f := range features {
		if f.has(&q) {
			a.Needs = append(a.Needs, f.name)
		}
	}
	return a
}

// docBody decodes a record body the way the documentation defines a filterable body: a
// BytesVal carrying the msgpack magic prefix and a msgpack map. class names what it is otherwise.
func docBody(t *hydrapb.Treasure) (m map[string]any, class string) {
	if t == nil {
		return nil, "absent"
	}
	if t.BytesVal == nil {
		return nil, "nobytes"
	}
	b := t.BytesVal
	if len(b) < 2 || b[0] != 0xC7 || b[1] != 0x00 {
		return nil, "noprefix"
	}
	if err := msgpack.Unmarshal(b[2:], &m); err != nil || m == nil {
		return nil, "nonmap"
	}
	return m, "map"
}

func hintKinds(h gateway.BucketHint) (leg, fk string) {
	leg = "Equal"
	var v any
	if len(h.Values) > 0 {
		v = h.Values[0]
	}
	switch v.(type) {
	case int64:
		fk = "int"
	case uint64:
		fk = "uint"
	case float64:
		fk = "float"
	case string:
		fk = "string"
	case bool:
		fk = "bool"
	default:
		fk = "other"
	}
	if h.Op == gateway.HintIn {
		leg, fk = "INT_IN", "set"
		if _, ok := v.(string); ok {
			leg = "STRING_IN"
		}
	}
	return
}

func (x *exec) bodyKindAt(key, path string) string {
	m, cl := docBody(x.snap[key])
	if cl != "map" {
		return cl
	}
	if ps := pathSyntax(path); ps == "wildcard" || ps == "len" {
		return "-"
	}
	v, ok := walkPlain(m, path)
	return valueKind(v, ok)
}

// probeStaleIndex reads the time index without any filter (scan route, no paging) and notes
// which records it misplaces with respect to their current timestamps: a record that carries
// the timestamp but is absent, or neighbours that are out of order. Such a stale order index
// makes the routes disagree for a reason that lies in index maintenance, not in the bucket.
func (x *exec) probeStaleIndex(q *Query) {
	x.stale, x.staleOrder = map[string]bool{}, false
	if hydrapb.IndexType_Type(q.Idx) == hydrapb.IndexType_KEY {
		return
	}
	U := x.stream(&Query{Idx: q.Idx, Desc: q.Desc}, nil)
	in := map[string]bool{}
	for i, it := range U.items {
		in[it.key] = true
		if i > 0 {
			a, b := tsOf(x.snap[U.items[i-1].key], q.Idx), tsOf(x.snap[it.key], q.Idx)
			if (!q.Desc && a > b) || (q.Desc && a < b) {
				x.staleOrder = true
			}
		}
	}
	for _, k := range x.skeys {
		if tsOf(x.snap[k], q.Idx) != 0 && !in[k] {
			x.stale[k] = true // carries the timestamp, yet the index does not list it
		}
	}
}

type sigEntry struct {
	sig string
	key string
}

// signatures names what disagreed. A pure set difference that needs no paging feature is
// attributed record by record (class of the record's value at the indexed path), so that
// two defects that meet in one pair still get their own signatures.
func (x *exec) signatures(a attribution) []sigEntry {
	q := a.Reduced
	pl, _ := takesBucketRoute(&q, q.F.pb())
	leg, ps, fk, path := "-", "-", "-", ""
	if len(pl.Hints) > 0 {
		h := pl.Hints[0]
		leg, fk = hintKinds(h)
		ps = pathSyntax(h.FieldPath)
		path = h.FieldPath
	}
	needs := "none"
	if len(a.Needs) > 0 {
		needs = strings.Join(a.Needs, "+")
	}
	timeIdx := hydrapb.IndexType_Type(q.Idx) != hydrapb.IndexType_KEY
	idx := "KEY"
	if timeIdx {
		idx = "TIME"
	}
	windowed := false
	for _, n := range a.Needs {
		if n != "labels" && n != "keysonly" {
			windowed = true
		}
	}
	mk := func(class, fk, bk, idx string) string {
		return fmt.Sprintf("route-diff:%s:%s:%s:%s:f=%s:b=%s:idx=%s:needs=%s", class, a.Shape, leg, ps, fk, bk, idx, needs)
	}
	setDiff := a.Diff.Class == "missing-on-bucket" || a.Diff.Class == "extra-on-bucket" || a.Diff.Class == "window-shift"
	if !setDiff || windowed || path == "" {
		// paging / window / label / order level: independent of the compared values
		if timeIdx && x.staleOrder && a.Diff.Class != "labels" {
			// the order index itself is out of order w.r.t. the current timestamps: its
			// positions, and the binary search for a time window, cannot be trusted
			idx = "TIME-STALE"
		}
		return []sigEntry{{mk(a.Diff.Class, "-", "-", idx), a.Diff.Key}}
	}
	var out []sigEntry
	seen := map[string]bool{}
	add := func(class string, keys []string) {
		for _, k := range keys {
			sig := mk(class, fk, x.bodyKindAt(k, path), idx)
			if timeIdx && tsOf(x.snap[k], q.Idx) == 0 {
				sig = mk(class, "-", "-", "TIME0")
			}
			if timeIdx && class == "extra-on-bucket" && x.stale[k] {
				sig = mk(class, "-", "-", "TIME-STALE")
			}
			if !seen[sig] {
				seen[sig] = true
				out = append(out, sigEntry{sig, k})
			}
		}
	}
	add("missing-on-bucket", a.Diff.Missing)
	add("extra-on-bucket", a.Diff.Extra)
	if len(out) == 0 {
		out = append(out, sigEntry{mk(a.Diff.Class, "-", "-", idx), a.Diff.Key})
	}
	return out
}

func (x *exec) describe(keys []string) map[string]string {
	o := map[string]string{}
	for i, k := range keys {
		if i >= 6 {
			break
		}
		t := x.snap[k]
		if t == nil {
			o[k] = "(not in snapshot)"
			continue
		}
		m, cl := docBody(t)
		s := cl
		if cl == "map" {
			s = fmt.Sprintf("%v", m)
		}
		o[k] = fmt.Sprintf("%s body=%s created=%d updated=%d expired=%d", s, hex.EncodeToString(t.BytesVal),
			tsOf(t, int32(hydrapb.IndexType_CREATION_TIME)), tsOf(t, int32(hydrapb.IndexType_UPDATE_TIME)), tsOf(t, int32(hydrapb.IndexType_EXPIRATION_TIME)))
	}
	return o
}

// ---------------------------------------------------------------------------
// canonical-equality cross-check for single-leg Equal / IN queries

func (x *exec) canonCheck(q *Query, stepIdx int, P, W result) {
	l := q.F.Legs[0]
	path := *l.Path
	vals := l.legValues()
	inP, inW := map[string]bool{}, map[string]bool{}
	for _, it := range P.items {
		inP[it.key] = true
	}
	for _, it := range W.items {
		inW[it.key] = true
	}
	for _, k := range x.skeys {
		m, cl := docBody(x.snap[k])
		if cl == "noprefix" {
			continue // whether such a body is "msgpack-encoded" is not specified; accept either outcome
		}
		var fv any
		present := false
		if cl == "map" {
			fv, present = walkPlain(m, path)
		}
		want := false
		fk := valuecanon.Canonicalize(fv)
		for _, v := range vals {
			ve := present && valuecanon.Equal(fk, valuecanon.Canonicalize(v))
			if ve {
				want = true
			}
			// the canonical rule itself is held against its documentation (package comment of
			// valuecanon): numbers are equal iff they denote the same number, no truncation, no
			// string/number crossing, null equals only null
			if de := present && docEqual(fv, v); de != ve {
				x.c.Violate(fmt.Sprintf("canon-rule:valuecanon-says-%v:f=%s:b=%s", ve, l.filterKind(), valueKind(fv, present)),
					fmt.Sprintf("valuecanon.Equal(%v (%T), %v (%T)) = %v but the documented rule gives %v", fv, fv, v, v, ve, de),
					map[string]any{"case": x.cs, "step": stepIdx, "field": fmt.Sprintf("%v (%T)", fv, fv), "filter_value": fmt.Sprintf("%v (%T)", v, v)})
			}
		}
		x.c.Count("canon_record_checks", 1)
		if want {
			x.c.Count("canon_expected_matches", 1)
		}
		for _, rt := range []struct {
			name string
			got  bool
		}{{"bucket", inP[k]}, {"scan", inW[k]}} {
			if rt.got == want {
				continue
			}
			cls := "extra"
			if want {
				cls = "missing"
			}
			bk := valueKind(fv, present)
			if cl != "map" {
				bk = cl
			}
			sig := fmt.Sprintf("canon:%s:%s:%s:%s:f=%s:b=%s", rt.name, cls, l.kindName(), pathSyntax(path), l.filterKind(), bk)
			if os.Getenv("C08_DEBUG_SIGS") != "" {
				fmt.Printf("DEBUGSIG %s case=%d step=%d\n", sig, x.cs.Idx, stepIdx)
			}
			x.c.Violate(sig, fmt.Sprintf("%s route %s record %s: field %s = %v (%T), filter %s %v; valuecanon.Equal says match=%v, route returned=%v",
				rt.name, map[bool]string{true: "dropped", false: "returned"}[want], k, path, fv, fv, l.kindName(), vals, want, rt.got),
				map[string]any{"case": x.cs, "step": stepIdx, "query": q, "filter": protojson.Format(q.F.pb()), "record": x.describe([]string{k})})
		}
	}
}

// docEqual is the value-equality rule as the valuecanon package comment states it, computed
// exactly: the numeric kinds (signed, unsigned, float; time.Time = its Unix seconds) are equal
// iff they denote the same number ("an int64 and a float64 compare equal only when the
// conversion is lossless"), NaN equals nothing, strings and bools only equal their own kind,
// everything else (nil, maps, arrays) equals no filter value.
func docEqual(field, ref any) bool {
	num := func(v any) (*big.Float, bool) {
		f := new(big.Float).SetPrec(200)
		switch n := v.(type) {
		case int8:
			return f.SetInt64(int64(n)), true
		case int16:
			return f.SetInt64(int64(n)), true
		case int32:
			return f.SetInt64(int64(n)), true
		case int64:
			return f.SetInt64(n), true
		case uint8:
			return f.SetUint64(uint64(n)), true
		case uint16:
			return f.SetUint64(uint64(n)), true
		case uint32:
			return f.SetUint64(uint64(n)), true
		case uint64:
			return f.SetUint64(n), true
		case float32:
			if math.IsNaN(float64(n)) {
				return nil, false
			}
			return f.SetFloat64(float64(n)), true
		case float64:
			if math.IsNaN(n) {
				return nil, false
			}
			return f.SetFloat64(n), true
		case time.Time:
			return f.SetInt64(n.UTC().Unix()), true
		}
		return nil, false
	}
	switch r := ref.(type) {
	case string:
		s, ok := field.(string)
		return ok && s == r
	case bool:
		b, ok := field.(bool)
		return ok && b == r
	}
	a, ok1 := num(field)
	b, ok2 := num(ref)
	return ok1 && ok2 && a.Cmp(b) == 0
}

// ---------------------------------------------------------------------------
// one query step

func (x *exec) runQuery(stepIdx int, q *Query) {
	c := x.c
	x.snapshot()
	fg := q.F.pb()
	w1, w2 := wrapOr(fg), wrapAndAnd(fg)
	pl, bucket := takesBucketRoute(q, fg)
	_, w1b := takesBucketRoute(q, w1)
	_, w2b := takesBucketRoute(q, w2)
	c.Count("pairs_total", 1)
	c.Seen("index_types", hydrapb.IndexType_Type(q.Idx).String())
	key := rig.Dump(q) + x.snapHash()
	if w1b || w2b {
		c.Count("wrapper_planned_nonbypass", 1)
		c.Inconclusive("a wrapper was planned on the bucket route")
		c.Case(key, false)
		return
	}
	// cold / warm bookkeeping for the bucket route
	state := "none"
	if bucket {
		state = "warm"
		for _, h := range pl.Hints {
			n, ok := x.built[h.FieldPath]
			switch {
			case !ok:
				state = "cold"
			case n > 0 && state != "cold":
				state = "warm-after-mutation"
			}
		}
	}
	bcBefore := 0
	if bucket {
		bcBefore = x.bucketCount()
	}
	var P, W1 result
	if q.BypassFirst {
		W1 = x.stream(q, w1)
		P = x.stream(q, fg)
	} else {
		P = x.stream(q, fg)
		W1 = x.stream(q, w1)
	}
	W2 := x.stream(q, w2)
	if bucket {
		bcAfter := x.bucketCount()
		newPaths := 0
		for _, h := range pl.Hints {
			if _, ok := x.built[h.FieldPath]; !ok {
				x.built[h.FieldPath] = 0
				newPaths++
			}
		}
		if bcAfter < 1 || bcAfter-bcBefore != newPaths {
			// the route could not be confirmed through the swamp's bucket count
			c.Count("route_unconfirmed_by_bucketcount", 1)
			c.Inconclusive(fmt.Sprintf("bucket count %d -> %d does not confirm the planned bucket route (%d new paths)", bcBefore, bcAfter, newPaths))
			c.Case(key, false)
			return
		}
	}
	// wrapper self-check: the two neutral wrappers must agree with each other
	if d, amb := x.compare(q, W1, W2); d != nil && !amb {
		c.Count("wrapper_disagreement", 1)
		if bucket {
			// Both wrapped forms are the same logical query answered by a full scan on the same
			// snapshot, each sent as its own request. If they differ (beyond ties), the plain
			// form's bucket-route answer differs from at least one full-scan answer of the same
			// query, which is what the property excludes. (Seen with a planner that edits the
			// request's filter group in place before it decides to bypass.)
			dp1, a1 := x.compare(q, P, W1)
			dp2, a2 := x.compare(q, P, W2)
			which := "both"
			switch {
			case (dp1 == nil || a1) && dp2 != nil && !a2:
				which = "AND(AND(f))"
			case (dp2 == nil || a2) && dp1 != nil && !a1:
				which = "OR(f)"
			}
			c.Violate("fullscan-forms-disagree:"+d.Class,
				fmt.Sprintf("two full-scan forms of one query (OR(f) and AND(AND(f))) stream different results on one snapshot (%s: %s); the bucket-route answer of the plain form disagrees with: %s",
					d.Class, strings.Replace(strings.Replace(d.Detail, "bucket route", "OR(f)", 1), "scan route", "AND(AND(f))", 1), which),
				map[string]any{"case": x.cs, "step": stepIdx, "query": q, "diff": d, "bucket_state": state})
			c.Case(key, true)
			return
		}
		c.Inconclusive("the two bypass wrappers disagree: " + d.Class)
		c.Case(key, false)
		return
	}
	if !bucket {
		// both forms on the scan route: trivial pair; it still validates wrapper neutrality
		c.Count("pairs_trivial_same_route", 1)
		if d, amb := x.compare(q, P, W1); d != nil && !amb {
			c.Count("wrapper_not_neutral", 1)
			c.Inconclusive("wrapper changes the scan-route result: " + d.Class + " " + d.Detail)
		}
		c.Case(key, false)
		return
	}
	c.Count("pairs_different_routes", 1)
	nontrivial := len(P.items)+len(W1.items) > 0
	if nontrivial {
		c.Count("pairs_different_routes_with_records", 1)
		c.Count("state_"+state, 1)
	}
	c.Seen("plan_modes", fmt.Sprintf("%d", pl.Mode))
	for _, h := range pl.Hints {
		lk, fk := hintKinds(h)
		c.Seen("hint_kinds", lk+"/"+pathSyntax(h.FieldPath)+"/"+fk)
	}
	if q.From > 0 || q.Limit > 0 {
		c.Count("pairs_with_from_limit", 1)
	}
	if hasLabels(q.F) {
		c.Count("pairs_with_labels", 1)
	}
	c.Count("records_streamed", int64(len(P.items)+len(W1.items)))

	d, amb := x.compare(q, P, W1)
	switch {
	case amb:
		c.Count("pairs_tie_ambiguous_skipped", 1)
		c.Case(key, false)
		return
	case d != nil:
		a := x.attribute(*q, d)
		x.probeStaleIndex(&a.Reduced)
		for _, se := range x.signatures(a) {
			keys := []string{se.key}
			if se.key == "" {
				keys = append(append([]string{}, a.Diff.Missing...), a.Diff.Extra...)
			}
			if os.Getenv("C08_DEBUG_SIGS") != "" {
				fmt.Printf("DEBUGSIG %s case=%d step=%d\n", se.sig, x.cs.Idx, stepIdx)
			}
			c.Violate(se.sig, fmt.Sprintf("bucket route and scan route disagree (%s, bucket state %s, offending record %q): %s | reduced request: %s",
				a.Diff.Class, state, se.key, a.Diff.Detail, strings.TrimSpace(rig.Dump(a.Reduced))),
				map[string]any{"case": x.cs, "step": stepIdx, "query": q, "diff": d, "attribution": a,
					"reduced_filter": protojson.Format(a.Reduced.F.pb()), "records": x.describe(keys), "bucket_state": state,
					"stale_time_index_records": len(x.stale)})
		}
	}
	c.Case(key, nontrivial)
	// the multi-swamp RPC duplicates the routing code: as a single-query request it must
	// stream what GetByIndexStream streams, on either route
	for _, rt := range []struct {
		name string
		fg   *hydrapb.FilterGroup
		ref  result
	}{{"bucket", fg, P}, {"scan", w1, W1}} {
		M := x.streamMany(q, rt.fg)
		if x.zeroTimeTies(q, M, rt.ref) {
			continue // both streams may order the timestamp-less records they carry differently
		}
		if dm, amb := x.compare(q, M, rt.ref); dm != nil && !amb {
			c.Violate("rpc-diff:GetByIndexStreamFromMany-vs-GetByIndexStream:"+rt.name+":"+dm.Class,
				fmt.Sprintf("single-query GetByIndexStreamFromMany differs from GetByIndexStream on the %s route: %s", rt.name, strings.Replace(strings.Replace(dm.Detail, "bucket route", "FromMany", 1), "scan route", "single-swamp RPC", 1)),
				map[string]any{"case": x.cs, "step": stepIdx, "query": q, "diff": dm})
		}
	}
	if q.Simple && len(q.F.Legs) == 1 && !hasTimeWindowOrPaging(q) {
		x.canonCheck(q, stepIdx, P, W1)
	}
}

func hasTimeWindowOrPaging(q *Query) bool {
	return q.From > 0 || q.Limit > 0 || q.MaxResults > 0 || q.FromNs != nil || q.ToNs != nil || len(q.Include)+len(q.Exclude) > 0 ||
		hydrapb.IndexType_Type(q.Idx) != hydrapb.IndexType_KEY
}

func runCase(t *testing.T, c *rig.Check, r *rig.Rig, cs Case) {
	x := &exec{t: t, c: c, r: r, cs: cs, built: map[string]int{}}
	for i, st := range cs.Steps {
		if st.Op == "query" {
			x.runQuery(i, st.Q)
		} else {
			x.apply(st)
		}
	}
	_, _ = r.GW.Destroy(context.Background(), &hydrapb.DestroyRequest{IslandID: x.island(), SwampName: cs.Swamp})
	if recs := rig.InstallSentinel().Drain("panic"); len(recs) > 0 {
		c.Violate("route-diff:panic:outside-query", "recovered panic during the history: "+recs[0].Msg+" "+recs[0].Attrs, map[string]any{"case": cs})
	}
}

// ---------------------------------------------------------------------------

func TestCheck(t *testing.T) {
	c := rig.NewCheck(t, "C08", "exploration")
	defer c.Finish()
	c.Rule = "case = (swamp state, filter tree, paging) triple: 4 per generated swamp history plus 24 hand-written ones from 16 fixed minimal histories; each request is streamed through gateway.GetByIndexStream as is and with the filter wrapped in OR{SubGroups:[F]} / AND{SubGroups:[AND{SubGroups:[F]}]}; non-trivial = gateway.PlanFilter plans the plain form non-bypass on a bucket-capable index and both wrapped forms bypass, the swamp's BucketCount confirms the build, and at least one of the two streams carried a record; distinct = distinct (request JSON, swamp content hash)"
	c.Assumptions = []string{
		"OR{SubGroups:[F]} and AND{SubGroups:[AND{SubGroups:[F]}]} are semantically neutral (query-engine.md: a group is an AND/OR over its members, an empty group passes everything); the two wrappers are cross-checked against each other and, on filters the planner does not index, against the unwrapped form",
		"MatchedLabels are compared as multisets per record (the documentation gives no label order)",
		"records with equal sort key may appear in any relative order; when such ties exist and From/Limit/MaxResults cut the sequence the pair is not compared (counted as pairs_tie_ambiguous_skipped)",
		"a record lacking the index's timestamp is not part of a time index (query-engine.md), so its presence in only one stream is a disagreement regardless of ties",
		"canonical cross-check only for single-leg Equal/IN filters on plain or dotted paths, KEY index, no paging; bodies without the msgpack magic prefix are exempt from it (whether they count as msgpack is unspecified)",
		"concurrent mutation during a bucket build is not generated here (C10 covers concurrency)",
	}
	nCases := c.N(100, 2500)
	c.MinNontrivial = nCases // at least a quarter of the 4*nCases triples must be non-trivial
	var cases []Case
	if p := c.ReplayPath(); p != "" {
		var w struct {
			Witness struct {
				Case Case `json:"case"`
			} `json:"witness"`
		}
		rig.ReadJSON(p, &w)
		cases = []Case{w.Witness.Case}
	} else {
		if os.Getenv("C08_ONLY_CASE") == "" {
			cases = fixedCases()
		}
		for i := 0; i < nCases; i++ {
			if only := os.Getenv("C08_ONLY_CASE"); only != "" && only != fmt.Sprint(i) { // debugging aid
				continue
			}
			cases = append(cases, genCase(c.Rand(i), i))
		}
	}
	root := rig.TempRoot("c08")
	defer rig.RemoveAll(root)
	synctest.Test(t, func(t *testing.T) {
		r := rig.New(rig.Options{Root: root})
		r.Register("c08m/s/*", true, 3600, 0)
		r.Register("c08d/s/*", false, 5, 1)
		for _, cs := range cases {
			if len(cases) <= 6 || (cs.Idx >= 0 && cs.Idx < 3) {
				c.Sample(map[string]any{"swamp": cs.Swamp, "steps": len(cs.Steps), "first_query": firstQuery(cs)})
			}
			runCase(t, c, r, cs)
		}
		r.Stop()
		time.Sleep(2 * time.Minute)
	})
}

func firstQuery(cs Case) any {
	for _, st := range cs.Steps {
		if st.Op == "query" {
			return map[string]any{"query": st.Q, "filter": protojson.Format(st.Q.F.pb())}
		}
	}
	return nil
}
