package c08

// Hand-written minimal histories: one per way the two routes are known or suspected to part.
// They run before the generated cases at every seed, so each of these input classes is
// exercised no matter what the PRNG draws; they double as minimal reproducers.

import (
	"fmt"
	"math"

	hydrapb "github.com/hydraide/hydraide/sdk/go/hydraidego/v3/hydraidepbgo"
)

func rec(key string, body mv, created int64) KVSpec {
	return KVSpec{Key: key, Content: "map", Body: withMagic(body.b), Desc: body.d, Created: created}
}

func setStep(kvs ...KVSpec) Step { return Step{Op: "set", KVs: kvs} }

func qStep(q Query) Step { q.BypassFirst = false; return Step{Op: "query", Q: &q} }

func one(l Leg) FNode { return FNode{Legs: []Leg{l}} }

func fixedCases() []Case {
	const t0 = (baseUnix + 3600) * 1e9
	bx := func(v string) mv { return mvMap(kv{"b", mvStr(v)}) }
	creation := int32(hydrapb.IndexType_CREATION_TIME)
	var out []Case
	add := func(steps ...Step) {
		n := len(out) + 1
		out = append(out, Case{Idx: -n, Mem: true, Swamp: fmt.Sprintf("c08m/s/fixed%d", n), Steps: steps})
	}
	three := setStep(rec("k1", bx("y"), 0), rec("k2", bx("x"), 0), rec("k3", bx("x"), 0))
	// 1: Limit is a pre-filter bound on the order index
	add(three, qStep(Query{Limit: 2, F: one(sleg("b", "x"))}))
	// 2: From skips positions of the order index, not matches
	add(three, qStep(Query{From: 1, F: one(sleg("b", "x"))}))
	// 3: label of the only (indexed) leg
	l := sleg("b", "x")
	l.Label = "L1"
	add(three, qStep(Query{F: one(l)}))
	// 4: labels under an OR of indexable legs
	l2 := sleg("b", "y")
	l2.Label = "L2"
	add(three, qStep(Query{F: FNode{Or: true, Legs: []Leg{l, l2}}}))
	// 5: record without CreatedAt on the CREATION_TIME index
	add(setStep(rec("k1", bx("x"), 0), rec("k2", bx("x"), t0)), qStep(Query{Idx: creation, F: one(sleg("b", "x"))}))
	// 6: [*] path
	add(setStep(rec("k1", mvMap(kv{"t", mvArr(mvStr("x"), mvStr("y"))}), 0), rec("k2", mvMap(kv{"t", mvArr(mvStr("z"))}), 0)),
		qStep(Query{F: one(sleg("t[*]", "x"))}))
	// 7: #len path
	add(setStep(rec("k1", mvMap(kv{"t", mvArr(mvFix(1), mvFix(2))}), 0), rec("k2", mvMap(kv{"t", mvArr()}), 0)),
		qStep(Query{F: one(ileg("t.#len", "i64", 2))}))
	// 8: integer reference value, fractional float in the body
	add(setStep(rec("k1", mvMap(kv{"a", mvF64(5.7)}), 0), rec("k2", mvMap(kv{"a", mvFix(5)}), 0)),
		qStep(Query{Simple: true, F: one(ileg("a", "i64", 5))}))
	// 9: same through INT64_IN
	add(setStep(rec("k1", mvMap(kv{"a", mvF64(5.7)}), 0), rec("k2", mvMap(kv{"a", mvU8(5)}), 0)),
		qStep(Query{Simple: true, F: one(Leg{Op: int32(hydrapb.Relational_INT64_IN), Path: sp("a"), I64s: []int64{5, 7}})}))
	// 10: msgpack timestamp in the body, float reference value
	add(setStep(rec("k1", mvMap(kv{"tm", mvTime(baseUnix)}), 0), rec("k2", mvMap(kv{"tm", mvTime(baseUnix + 1)}), 0)),
		qStep(Query{Simple: true, F: one(f64leg("tm", baseUnix))}))
	// 11: body without the msgpack magic prefix
	np := KVSpec{Key: "k1", Content: "noprefix", Body: bx("x").b, Desc: "noprefix " + bx("x").d}
	add(setStep(np, rec("k2", bx("x"), 0)), qStep(Query{F: one(sleg("b", "x"))}))
	// 12: FromTime on the KEY index
	from := int64(t0)
	add(setStep(rec("k1", bx("x"), t0+1e9), rec("k2", bx("x"), 0)), qStep(Query{FromNs: &from, F: one(sleg("b", "x"))}))
	// 13: float reference value, integer beyond 2^53 in the body
	add(setStep(rec("k1", mvMap(kv{"a", mvI64(1<<53 + 1)}), 0), rec("k2", mvMap(kv{"a", mvF64(two53)}), 0)),
		qStep(Query{Simple: true, F: one(f64leg("a", two53))}))
	// 14: creation time moved by an overwrite after the creation-time index was built
	add(setStep(rec("k1", bx("x"), t0), rec("k2", bx("x"), t0+1e9)),
		qStep(Query{Idx: creation, F: one(sleg("b", "x"))}),
		setStep(rec("k1", bx("x"), t0+2e9)),
		qStep(Query{Idx: creation, F: one(sleg("b", "x"))}))
	// 15: mutations after the build: overwrite moves a record between values, patch, delete, insert
	add(three, qStep(Query{F: one(sleg("b", "x"))}),
		setStep(rec("k2", bx("y"), 0), rec("k4", bx("x"), 0)),
		Step{Op: "patch", Patches: []PatchSpec{{Key: "k1", Ops: []POp{{Kind: int32(hydrapb.PatchOp_SET), Path: "b", Value: mvStr("x").b, Desc: `SET b="x"`}}}}},
		Step{Op: "delete", Keys: []string{"k3"}},
		qStep(Query{F: one(sleg("b", "x"))}), qStep(Query{F: one(sleg("b", "y"))}))
	// 16: cross-kind numeric equality that both routes must accept (int / uint / integral float), NaN, -0
	add(setStep(rec("k1", mvMap(kv{"a", mvFix(5)}), 0), rec("k2", mvMap(kv{"a", mvU64(5)}), 0), rec("k3", mvMap(kv{"a", mvF32(5)}), 0),
		rec("k4", mvMap(kv{"a", mvF64(math.NaN())}), 0), rec("k5", mvMap(kv{"a", mvStr("5")}), 0), rec("k6", mvMap(kv{"a", mvF64(math.Copysign(0, -1))}), 0)),
		qStep(Query{Simple: true, F: one(ileg("a", "i8", 5))}), qStep(Query{Simple: true, F: one(uleg("a", "u64", 5))}),
		qStep(Query{Simple: true, F: one(f64leg("a", 5))}), qStep(Query{Simple: true, F: one(f64leg("a", math.NaN()))}),
		qStep(Query{Simple: true, F: one(ileg("a", "i64", 0))}))
	return out
}
