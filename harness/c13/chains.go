package c13

// Dependent op chains inside one op list: an earlier op ("writer") creates, replaces or
// removes the value at a path, and a later op of the SAME list ("reader") addresses that path
// or a path below it. Such lists are where an implementation's in-flight representation of a
// freshly written value (cached codes, opaque vs structural nodes, stale ranges) matters; the
// composition oracle (list == sequential application) decides them.

import (
	"fmt"
	"math"
	"math/big"
	"strings"
)

// writtenAt returns the path an op wrote to (base) and the value it left there, if known.
func (g *gen) writtenAt(w opJ) (string, *node) {
	var wv *node
	if w.Value != nil {
		wv, _ = decode([]byte(*w.Value))
	}
	switch w.Kind {
	case opMerge:
		if wv != nil && wv.kind == kMap && len(wv.keys) > 0 && g.p(75) {
			var plain []int
			for i, k := range wv.keys {
				if plainName.MatchString(k) {
					plain = append(plain, i)
				}
			}
			if len(plain) > 0 {
				i := pick(g, plain)
				return w.Path + "." + wv.keys[i], wv.kids[i]
			}
		}
		return w.Path, wv
	case opAppend, opPrepend:
		base := strings.TrimSuffix(w.Path, "[]")
		if g.p(35) {
			return base + "[0]", wv
		}
		if wv != nil {
			return base, &node{kind: kArr, kids: []*node{wv}}
		}
		return base, nil
	case opRemoveAt:
		if i := strings.LastIndexByte(w.Path, '['); i > 0 && g.p(60) {
			return w.Path[:i], nil
		}
		return w.Path, nil
	case opDelete, opRemoveVal:
		return w.Path, nil
	}
	return w.Path, wv // SET, INC
}

// dependentOp builds an op that addresses what an earlier op of the list wrote.
func (g *gen) dependentOp(prev []opJ) opJ {
	w := pick(g, prev)
	base, wv := g.writtenAt(w)
	kind := g.r.IntN(8)
	if g.p(30) {
		kind = opInc // the reader with the most type-dependent behaviour
	}
	path, target := base, wv
	below := func() {
		switch {
		case wv != nil && wv.kind == kMap && len(wv.keys) > 0 && g.p(70):
			i := g.r.IntN(len(wv.keys))
			if plainName.MatchString(wv.keys[i]) {
				path, target = base+"."+wv.keys[i], wv.kids[i]
				return
			}
			path, target = base+".a", nil
		case wv != nil && wv.kind == kArr && len(wv.kids) > 0 && g.p(70):
			i := g.r.IntN(len(wv.kids))
			path, target = fmt.Sprintf("%s[%d]", base, i), wv.kids[i]
		case g.p(50):
			path, target = base+"."+pick(g, []string{"a", "x", "new1"}), nil
		default:
			path, target = base+"[0]", nil
		}
	}
	switch kind {
	case opAppend, opPrepend:
		if g.p(25) {
			below()
		}
		path += "[]"
	case opRemoveAt:
		if wv != nil && wv.kind == kArr && len(wv.kids) > 0 {
			path = fmt.Sprintf("%s[%d]", base, g.r.IntN(len(wv.kids)+1))
		} else {
			path = base + pick(g, []string{"[0]", "[1]"})
		}
	default:
		if g.p(35) {
			below()
		}
	}
	var val []byte
	switch kind {
	case opSet, opAppend, opPrepend:
		val = g.value(1)
	case opInc:
		val = g.incDelta(target)
	case opRemoveVal:
		val = g.removeValue(target)
	case opMerge:
		val = g.mergeValue(target)
	}
	if kind != opDelete && kind != opRemoveAt && g.p(4) {
		val, _ = g.malform(val)
	}
	return opJ{Kind: kind, Name: opName(kind), Path: path, Value: hp(val)}
}

// numericWriterValue: a numeric of another code than old (code changes are what stale caches miss).
func (g *gen) retypedValue(old *node) []byte {
	kinds := []string{"posfix", "negfix", "uint8", "uint16", "uint32", "uint64", "int8", "int16", "int32", "int64", "float32", "float64"}
	for tries := 0; tries < 8; tries++ {
		v := g.leafOf(pick(g, kinds))
		if old == nil || old.kind != kLeaf || v[0] != old.code {
			return v
		}
	}
	return g.leafOf("int64")
}

// ---------------------------------------------------------------------------
// fixed family: every writer x every new value x every reader, on every kind of old value

type namedVal struct {
	name string
	raw  []byte
}

func chainValues() []namedVal {
	i := func(c byte, v int64) []byte { return encIntCode(c, big.NewInt(v)) }
	u := func(c byte, v uint64) []byte { return encIntCode(c, new(big.Int).SetUint64(v)) }
	return []namedVal{
		{"posfix", []byte{0x07}},
		{"negfix", []byte{0xfb}},
		{"int8", i(0xd0, 100)},
		{"int16", i(0xd1, 1000)},
		{"int32", i(0xd2, -70000)},
		{"int64", i(0xd3, 1000)},
		{"uint8", u(0xcc, 200)},
		{"uint16", u(0xcd, 65535)},
		{"uint32", u(0xce, 7)},
		{"uint64", u(0xcf, math.MaxUint64-1)},
		{"float32", encFloat32(1.5)},
		{"float64", encFloat64(2.25)},
		{"str", encStrForm("7", 0)},
		{"bool", []byte{0xc3}},
		{"nil", []byte{0xc0}},
		{"map", mpj([]byte{0x82}, encStrForm("a", 0), i(0xd0, 5), encStrForm("b", 0), encStrForm("s", 0))},
		{"map16", mpj([]byte{0xde, 0x00, 0x01}, encStrForm("a", 1), i(0xd3, 5))},
		{"array", mpj([]byte{0x93}, i(0xd0, 5), u(0xcc, 5), i(0xd0, 5))},
		{"array16", mpj([]byte{0xdc, 0x00, 0x02}, encFloat32(1), mpj([]byte{0x81}, encStrForm("a", 0), []byte{0x01}))},
		{"emptymap", []byte{0x80}},
		{"emptyarray", []byte{0x90}},
	}
}

func mpj(parts ...[]byte) []byte {
	var out []byte
	for _, p := range parts {
		out = append(out, p...)
	}
	return out
}

// chainCases enumerates writer/reader pairs on the same path ("p.k" inside a nested map, and
// "k" at the root) or below it.
func chainCases() []caseT {
	vals := chainValues()
	olds := append([]namedVal{{"missing", nil}}, vals...)
	mk := func(k int, p string, v []byte) opJ { return opJ{Kind: k, Name: opName(k), Path: p, Value: hp(v)} }
	one := func(c byte, v int64) []byte { return encIntCode(c, big.NewInt(v)) }
	var out []caseT
	for _, loc := range []string{"p.k", "k"} {
		for _, old := range olds {
			// body: {"s": int8 1, ["k": old,] "p": {"s": str, ["k": old,] "t": uint16 9}}
			inner := [][]byte{encStrForm("s", 0), encStrForm("v", 0)}
			rootk := [][]byte{}
			n := 2
			if old.raw != nil {
				inner = append(inner, encStrForm("k", 0), old.raw)
				rootk = append(rootk, encStrForm("k", 0), old.raw)
				n = 3
			}
			inner = append(inner, encStrForm("t", 0), []byte{0xcd, 0, 9})
			body := mpj([]byte{0x80 | byte(n)}, encStrForm("s", 0), []byte{0xd0, 1}, mpj(rootk...), encStrForm("p", 0), mpj([]byte{0x80 | byte(n)}, mpj(inner...)))
			for _, nv := range vals {
				// writers that leave nv (or something built from nv) at loc
				writers := [][]opJ{
					{mk(opSet, loc, nv.raw)},
					{mk(opAppend, loc+"[]", nv.raw)},
					{mk(opPrepend, loc+"[]", nv.raw)},
					{mk(opInc, loc, nv.raw)},
					{mk(opDelete, loc, nil), mk(opSet, loc, nv.raw)},
					{mk(opSet, loc, mpj([]byte{0x92}, nv.raw, nv.raw)), mk(opRemoveAt, loc+"[0]", nil)},
				}
				if loc == "p.k" {
					writers = append(writers,
						[]opJ{mk(opMerge, "p", mpj([]byte{0x81}, encStrForm("k", 0), nv.raw))},
						[]opJ{mk(opMerge, "p", mpj([]byte{0x82}, encStrForm("z", 0), []byte{0x01}, encStrForm("k", 2), nv.raw))},
						[]opJ{mk(opSet, "p", mpj([]byte{0x81}, encStrForm("k", 0), nv.raw))})
				} else {
					writers = append(writers, []opJ{mk(opMerge, loc, mpj([]byte{0x81}, encStrForm("a", 0), nv.raw))})
				}
				readers := []opJ{
					mk(opInc, loc, one(0xd0, 1)), mk(opInc, loc, one(0xd3, 1)), mk(opInc, loc, one(0xcc, 1)), mk(opInc, loc, one(0xcf, 1)),
					mk(opInc, loc, []byte{0x01}), mk(opInc, loc, []byte{0xff}), mk(opInc, loc, encFloat32(0.5)), mk(opInc, loc, encFloat64(0.5)),
					mk(opInc, loc+".a", one(0xd0, 1)), mk(opInc, loc+".a", one(0xd3, 1)), mk(opInc, loc+"[0]", one(0xd0, 1)), mk(opInc, loc+"[0]", one(0xcc, 1)), mk(opInc, loc+"[0]", encFloat64(1)),
					mk(opAppend, loc+"[]", []byte{0x2a}), mk(opPrepend, loc+"[]", encStrForm("h", 0)), mk(opAppend, loc+".a[]", []byte{0x2a}), mk(opAppend, loc+"[0][]", []byte{0x2a}),
					mk(opRemoveVal, loc, one(0xd0, 5)), mk(opRemoveVal, loc, nv.raw), mk(opRemoveAt, loc+"[0]", nil), mk(opRemoveAt, loc+"[1]", nil),
					mk(opMerge, loc, mpj([]byte{0x82}, encStrForm("a", 0), one(0xd3, 9), encStrForm("z", 0), encStrForm("q", 0))),
					mk(opSet, loc, []byte{0xc2}), mk(opSet, loc+".a", one(0xd1, 3)), mk(opSet, loc+".n.m", []byte{0x01}), mk(opSet, loc+"[0]", encStrForm("e", 0)),
					mk(opDelete, loc, nil), mk(opDelete, loc+".a", nil), mk(opDelete, loc+"[0]", nil),
				}
				for wi, w := range writers {
					// keep the family affordable: the full reader set for every old value only for
					// the in-place writers (SET / MERGE / INC); a rotating quarter for the rest
					full := wi == 0 || wi == 3 || wi >= 6
					for ri, rd := range readers {
						if !full && (ri+wi+len(old.name)+len(nv.name))%4 != 0 {
							continue
						}
						ops := append(append([]opJ{}, w...), rd)
						out = append(out, caseT{Body: body, Ops: ops})
					}
				}
			}
		}
	}
	return out
}
