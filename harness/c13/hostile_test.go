package c13

// Hostile-size probe: op values and condition thresholds whose msgpack header announces far
// more than the few bytes that follow (map32 / array32 / str32 / bin32 / ext32 with counts up
// to 2^32-1, bare and nested inside a well-formed map). An engine that sizes an allocation from
// such a header does not fail the operation, it kills the process (fatal "out of memory" cannot
// be recovered), so the probe runs in a child process under an address-space limit and logs
// every call before making it. The parent turns "child died after PROBE i" into a violation
// with that call as the witness. A failing operation must leave the body unchanged and a
// reported success must be well-formed; both are checked in the child as well.

import (
	"bufio"
	"bytes"
	"fmt"
	"os"
	"os/exec"
	"strings"
	"syscall"
	"testing"
	"time"

	"verifharness/rig"
)

type hostileValue struct {
	name string
	b    []byte
}

func hostileValues() []hostileValue {
	hv := []hostileValue{
		{"map32-max", []byte{0xdf, 0xff, 0xff, 0xff, 0xff}},
		{"map32-2^31", []byte{0xdf, 0x7f, 0xff, 0xff, 0xff}},
		{"map32-2^28-one-entry", []byte{0xdf, 0x10, 0x00, 0x00, 0x00, 0xa1, 'k', 0x01}},
		{"map16-max", []byte{0xde, 0xff, 0xff}},
		{"array32-max", []byte{0xdd, 0xff, 0xff, 0xff, 0xff}},
		{"array32-2^28-one-item", []byte{0xdd, 0x10, 0x00, 0x00, 0x00, 0x01}},
		{"array16-max", []byte{0xdc, 0xff, 0xff}},
		{"str32-max", []byte{0xdb, 0xff, 0xff, 0xff, 0xff, 'a'}},
		{"bin32-max", []byte{0xc6, 0xff, 0xff, 0xff, 0xff, 0x00}},
		{"ext32-max", []byte{0xc9, 0xff, 0xff, 0xff, 0xff, 0x01}},
	}
	// the same headers one level down, inside an otherwise well-formed map / array
	n := len(hv)
	for _, h := range hv[:n] {
		hv = append(hv, hostileValue{"in-map:" + h.name, append([]byte{0x81, 0xa1, 'x'}, h.b...)})
		hv = append(hv, hostileValue{"in-array:" + h.name, append([]byte{0x91}, h.b...)})
	}
	return hv
}

// body: {"m":{"a":1},"arr":[1,2],"n":5,"s":"v"}
var hostileBody = []byte{0x84,
	0xa1, 'm', 0x81, 0xa1, 'a', 0x01,
	0xa3, 'a', 'r', 'r', 0x92, 0x01, 0x02,
	0xa1, 'n', 0x05,
	0xa1, 's', 0xa1, 'v'}

var hostilePaths = []string{"m", "arr", "n", "zz", "m.new", "arr[0]"}

type hostileProbe struct {
	Idx   int    `json:"idx"`
	Kind  int    `json:"kind"`
	Name  string `json:"op"`
	Path  string `json:"path"`
	Class string `json:"value_class"`
	Value hexb   `json:"value"`
	Cond  bool   `json:"as_condition_threshold"`
}

func hostileProbes() []hostileProbe {
	var ps []hostileProbe
	for _, hv := range hostileValues() {
		for kind := 0; kind < 8; kind++ {
			if kind == opDelete || kind == opRemoveAt {
				continue // Value is documented as ignored; covered by the generated cases
			}
			for _, p := range hostilePaths {
				ps = append(ps, hostileProbe{Idx: len(ps), Kind: kind, Name: opName(kind), Path: p, Class: hv.name, Value: hexb(hv.b)})
			}
		}
		for op := 0; op < 8; op++ {
			ps = append(ps, hostileProbe{Idx: len(ps), Kind: op, Name: fmt.Sprintf("cond-op-%d", op), Path: "n", Class: hv.name, Value: hexb(hv.b), Cond: true})
		}
	}
	return ps
}

// TestHostileSizeChild is the child side; it does nothing unless the parent asked for it.
func TestHostileSizeChild(t *testing.T) {
	if os.Getenv("C13_HOSTILE_CHILD") == "" {
		t.Skip("child of TestCheck only")
	}
	lim := uint64(12 << 30)
	_ = syscall.Setrlimit(syscall.RLIMIT_AS, &syscall.Rlimit{Cur: lim, Max: lim})
	w := bufio.NewWriter(os.Stdout)
	for _, p := range hostileProbes() {
		fmt.Fprintf(w, "PROBE %d\n", p.Idx)
		w.Flush()
		var res realResult
		if p.Cond {
			res = realApply(hostileBody, []opT{{Kind: opSet, Path: "s", Value: []byte{0xa1, 'w'}}}, &condT{Path: p.Path, Op: p.Kind, Threshold: []byte(p.Value)})
		} else {
			res = realApply(hostileBody, []opT{{Kind: p.Kind, Path: p.Path, Value: []byte(p.Value)}}, nil)
		}
		switch {
		case res.panic != "":
			fmt.Fprintf(w, "BAD %d panic %s\n", p.Idx, strings.ReplaceAll(res.panic, "\n", " "))
		case res.mut:
			fmt.Fprintf(w, "BAD %d mutated-input the call changed its input slices\n", p.Idx)
		case res.err == "":
			if err := vmihailencoParses(res.out); err != nil {
				fmt.Fprintf(w, "BAD %d success-malformed success with a body that does not parse (%v): %s\n", p.Idx, err, hx(res.out))
			} else if _, derr := decode(res.out); derr != nil {
				fmt.Fprintf(w, "BAD %d success-malformed success with a body the strict decoder rejects (%v): %s\n", p.Idx, derr, hx(res.out))
			} else if !p.Cond && !bytes.Equal(res.out, hostileBody) {
				// none of the probe values is a complete msgpack value: a success that changed the
				// document spliced bytes the value does not contain
				fmt.Fprintf(w, "OKCHANGED %d\n", p.Idx)
			} else {
				fmt.Fprintf(w, "OK %d\n", p.Idx)
			}
		default:
			fmt.Fprintf(w, "ERR %d\n", p.Idx)
		}
	}
	fmt.Fprintln(w, "PROBEDONE")
	w.Flush()
}

// runHostileProbe is the parent side.
func runHostileProbe(c *rig.Check) {
	probes := hostileProbes()
	cmd := exec.Command(os.Args[0], "-test.run", "^TestHostileSizeChild$", "-test.timeout", "0")
	cmd.Env = append(os.Environ(), "C13_HOSTILE_CHILD=1", "GOTRACEBACK=single")
	var out, errb bytes.Buffer
	cmd.Stdout, cmd.Stderr = &out, &errb
	if err := cmd.Start(); err != nil {
		c.Inconclusive("hostile-size probe: cannot start the child: " + err.Error())
		return
	}
	done := make(chan error, 1)
	go func() { done <- cmd.Wait() }()
	timedOut := false
	select {
	case <-done:
	case <-time.After(10 * time.Minute): // generous watchdog; its firing is inconclusive
		_ = cmd.Process.Kill()
		<-done
		timedOut = true
	}
	last, finished := -1, false
	outcome := map[string]int64{}
	for _, ln := range strings.Split(out.String(), "\n") {
		f := strings.SplitN(ln, " ", 4)
		switch f[0] {
		case "PROBE":
			fmt.Sscan(f[1], &last)
		case "PROBEDONE":
			finished = true
		case "OK", "ERR", "OKCHANGED":
			outcome[f[0]]++
		case "BAD":
			var i int
			fmt.Sscan(f[1], &i)
			if i >= 0 && i < len(probes) && len(f) == 4 {
				p := probes[i]
				c.Violate("hostile-size:"+f[2]+":"+p.Name+":"+p.Class, fmt.Sprintf("%s at %q with a %s value (% x): %s", p.Name, p.Path, p.Class, []byte(p.Value), f[3]),
					map[string]any{"hostile_probe": p})
			}
		}
	}
	c.Count("hostile_size_probes", int64(len(probes)))
	c.Count("hostile_size_rejected", outcome["ERR"])
	c.Count("hostile_size_success_unchanged", outcome["OK"])
	c.Count("hostile_size_success_changed", outcome["OKCHANGED"])
	switch {
	case finished:
	case timedOut:
		c.Inconclusive(fmt.Sprintf("hostile-size probe: the child was still running after 10 minutes (at probe %d)", last))
	case last >= 0 && last < len(probes):
		p := probes[last]
		why := "no diagnostic"
		for _, ln := range strings.Split(errb.String()+"\n"+out.String(), "\n") {
			if strings.HasPrefix(ln, "fatal error:") || strings.HasPrefix(ln, "runtime: out of memory") || strings.HasPrefix(ln, "panic:") {
				why = ln
				break
			}
		}
		c.Violate("hostile-size:process-death:"+p.Name+":"+p.Class,
			fmt.Sprintf("the process died inside %s at %q with a %d-byte %s value (% x) under a 12 GiB address-space limit: %s", p.Name, p.Path, len(p.Value), p.Class, []byte(p.Value), why),
			map[string]any{"hostile_probe": p})
	default:
		c.Inconclusive("hostile-size probe: the child ended before its first probe: " + strings.TrimSpace(errb.String()))
	}
}
