package c13

// The C13 reference model: documented semantics of the eight patch ops and of
// the condition operators, written from
//   /repo/docs/features/structural-msgpack-patch.md
//   /repo/proto/hydraide.proto   (PatchOp.Kind, PatchCondition.Op, PatchResult.StatusCode comments)
//   /repo/docs/sdk/go/go-sdk.md  (Field-Level Patches) and the PatchBuilder doc comments.
//
// The model is a one-step, non-deterministic predictor: for one op on one
// decoded document it returns the set of acceptable outcomes ("alternatives"):
// error classes and/or result documents. Wherever the documentation is silent
// or ambiguous, several alternatives are returned (see Assumptions in
// check_test.go). The monitor applies it step by step to the *actual* previous
// document, so ambiguity never compounds.

import (
	"math"
	"math/big"
	"regexp"
	"strconv"
	"strings"
)

// error classes = documented PatchResult.StatusCode values for failures
type classSet uint16

const (
	cPI  classSet = 1 << iota // PATH_INVALID
	cTM                       // TYPE_MISMATCH
	cENC                      // ENCODING_NOT_SUPPORTED
	cINT                      // INTERNAL_ERROR
	cFNF                      // FIELD_NOT_FOUND (reserved)
	cCNM                      // CONDITION_NOT_MET
)

const errAny = cPI | cTM | cENC | cINT | cFNF

func className(c classSet) string {
	switch c {
	case cPI:
		return "PATH_INVALID"
	case cTM:
		return "TYPE_MISMATCH"
	case cENC:
		return "ENCODING_NOT_SUPPORTED"
	case cINT:
		return "INTERNAL_ERROR"
	case cFNF:
		return "FIELD_NOT_FOUND"
	case cCNM:
		return "CONDITION_NOT_MET"
	case 0:
		return "SUCCESS"
	}
	return "?"
}

const (
	opSet = iota
	opDelete
	opInc
	opAppend
	opPrepend
	opRemoveAt
	opRemoveVal
	opMerge
)

var opNames = []string{"SET", "DELETE", "INC", "APPEND", "PREPEND", "REMOVE_AT", "REMOVE_VAL", "MERGE"}

func opName(k int) string {
	if k >= 0 && k < len(opNames) {
		return opNames[k]
	}
	return "UNKNOWN_KIND"
}

// ---------------------------------------------------------------------------
// paths

const (
	sField = iota
	sIndex
	sAppend
)

type seg struct {
	kind int
	name string
	idx  int64 // may be negative (non-documented "from the end" reading)
}

const (
	pOK      = iota
	pInvalid // malformed under every reading: PATH_INVALID
	pNoName  // bracket without a field name: malformed, PATH_INVALID or TYPE_MISMATCH
	pOdd     // outside the documented grammar but with an obvious literal reading
	// "[]" somewhere before the end: malformed, but an implementation may only notice when it
	// gets there (a missing field earlier on the path can win for DELETE / REMOVE_VAL / NOT_EXISTS)
	pMidAppend
)

var (
	plainName = regexp.MustCompile(`^[A-Za-z0-9_]+$`)
	plainIdx  = regexp.MustCompile(`^(0|[1-9][0-9]*)$`)
	oddIdx    = regexp.MustCompile(`^[+-]?[0-9]+$`)
)

// parsePath implements the documented grammar: dot-separated field names, each
// optionally followed by bracketed array indices; "[]" is the append marker and
// must be last; "[*]" is not allowed.
func parsePath(s string) ([]seg, int) {
	if s == "" {
		return nil, pInvalid
	}
	status := pOK
	var segs []seg
	parts := strings.Split(s, ".")
	for _, part := range parts {
		if part == "" {
			return nil, pInvalid
		}
		br := strings.IndexByte(part, '[')
		name := part
		rest := ""
		if br >= 0 {
			name, rest = part[:br], part[br:]
		}
		if strings.ContainsAny(name, "]") {
			return nil, pInvalid
		}
		if name == "" {
			// "[3]" / "a.[3]": bracket without a field name
			status = pNoName
		} else {
			if !plainName.MatchString(name) {
				if status == pOK {
					status = pOdd
				}
			}
			segs = append(segs, seg{kind: sField, name: name})
		}
		for rest != "" {
			if rest[0] != '[' {
				return nil, pInvalid
			}
			end := strings.IndexByte(rest, ']')
			if end < 0 {
				return nil, pInvalid
			}
			inner := rest[1:end]
			switch {
			case inner == "":
				segs = append(segs, seg{kind: sAppend})
			case plainIdx.MatchString(inner) || oddIdx.MatchString(inner):
				if !plainIdx.MatchString(inner) && status == pOK {
					status = pOdd
				}
				v, err := strconv.ParseInt(inner, 10, 64)
				if err != nil {
					// does not fit: certainly out of range for any array
					if status == pOK {
						status = pOdd
					}
					v = math.MaxInt64
					if strings.HasPrefix(inner, "-") {
						v = math.MinInt64
					}
				}
				segs = append(segs, seg{kind: sIndex, idx: v})
			default:
				return nil, pInvalid // [*], [x], [1.5], [ 1]
			}
			rest = rest[end+1:]
		}
	}
	if status == pNoName {
		return nil, pNoName
	}
	for i, sg := range segs {
		if sg.kind == sAppend && i != len(segs)-1 {
			return segs, pMidAppend
		}
	}
	return segs, status
}

const (
	rFound     = iota
	rMissing   // a field segment does not exist (at = index of that segment, parent = deepest existing map)
	rWrongKind // segment at cannot be applied to the node reached (field on non-map, index/[] on non-array)
	rOOR       // index segment at is out of range
	rAppend    // path ends in [] and everything before it resolved to an array (parent)
)

type resolved struct {
	kind   int
	at     int
	parent *node
	idx    int
	target *node
}

func resolve(root *node, segs []seg) resolved {
	cur := root
	for i, sg := range segs {
		final := i == len(segs)-1
		switch sg.kind {
		case sField:
			if cur.kind != kMap {
				return resolved{kind: rWrongKind, at: i, parent: cur}
			}
			j := cur.find(sg.name)
			if j < 0 {
				return resolved{kind: rMissing, at: i, parent: cur}
			}
			if final {
				return resolved{kind: rFound, at: i, parent: cur, idx: j, target: cur.kids[j]}
			}
			cur = cur.kids[j]
		case sIndex:
			if cur.kind != kArr {
				return resolved{kind: rWrongKind, at: i, parent: cur}
			}
			j := sg.idx
			if j < 0 {
				j += int64(len(cur.kids))
			}
			if j < 0 || j >= int64(len(cur.kids)) {
				return resolved{kind: rOOR, at: i, parent: cur}
			}
			if final {
				return resolved{kind: rFound, at: i, parent: cur, idx: int(j), target: cur.kids[j]}
			}
			cur = cur.kids[j]
		case sAppend:
			if cur.kind != kArr {
				return resolved{kind: rWrongKind, at: i, parent: cur}
			}
			return resolved{kind: rAppend, at: i, parent: cur}
		}
	}
	return resolved{kind: rWrongKind}
}

// ---------------------------------------------------------------------------
// outcomes

type outs struct {
	sit  string   // stable description of the situation (for signatures / coverage)
	errs classSet // acceptable error classes
	docs []*node  // acceptable result documents
	any  bool     // input outside the documented domain: every outcome accepted
}

func (o *outs) err(c classSet) { o.errs |= c }
func (o *outs) ok(d *node)     { o.docs = append(o.docs, d) }

type opT struct {
	Kind  int
	Path  string
	Value []byte
}

const (
	vAbsent = iota
	vOK
	vMalformed
)

func fieldsOnly(segs []seg) bool {
	for _, s := range segs {
		if s.kind != sField {
			return false
		}
	}
	return true
}

// createChain creates one nested map per (field) segment under parent and returns the innermost.
func createChain(parent *node, segs []seg) *node {
	for _, s := range segs {
		m := &node{kind: kMap}
		parent.addEntry(s.name, m)
		parent = m
	}
	return parent
}

// modelStep predicts the acceptable outcomes of one op applied to doc.
func modelStep(doc *node, op opT) outs {
	var o outs
	kn := opName(op.Kind)
	if op.Kind < 0 || op.Kind > opMerge {
		o.sit = "unknown-kind"
		o.err(errAny)
		return o
	}
	needsValue := op.Kind != opDelete && op.Kind != opRemoveAt
	vs := vOK
	var val *node
	if needsValue {
		if len(op.Value) == 0 {
			vs = vAbsent
		} else if v, err := decode(op.Value); err != nil {
			vs = vMalformed
			if err == errNonStringKey {
				o.sit = "value-nonstring-key"
				o.any = true
				return o
			}
		} else {
			val = v
		}
	}
	segs, ps := parsePath(op.Path)
	switch ps {
	case pInvalid:
		o.sit = "path-malformed"
		o.err(cPI)
	case pNoName:
		o.sit = "path-bracket-without-name"
		o.err(cPI | cTM)
	}
	if ps == pMidAppend {
		o.sit = "append-marker-not-last"
		o.err(cPI)
		var prefix []seg
		for _, sg := range segs {
			if sg.kind == sAppend {
				break
			}
			prefix = append(prefix, sg)
		}
		if len(prefix) > 0 {
			r := resolve(doc, prefix)
			if r.kind == rWrongKind || (r.kind == rFound && r.target.kind != kArr) {
				o.err(cTM)
			}
			if (op.Kind == opDelete || op.Kind == opRemoveVal) && (r.kind == rMissing || r.kind == rWrongKind || r.kind == rOOR) {
				o.sit += ":prefix-missing"
				o.ok(clone(doc)) // "missing target is a no-op"
			}
		}
	}
	if ps == pInvalid || ps == pNoName || ps == pMidAppend {
		// a second fault of the value may be reported instead of the path
		if op.Kind == opInc && vs == vOK && !(val.kind == kLeaf && famOf(val.code) != fNone) {
			o.err(cTM)
		}
		if op.Kind == opMerge && vs == vOK && val.kind != kMap {
			o.err(cTM)
		}
	}
	if needsValue && vs == vAbsent {
		// "Value ... Required for SET / INC / APPEND / PREPEND / REMOVE_VAL / MERGE"; the
		// status for a missing required value is not documented.
		if o.sit == "" {
			o.sit = "value-absent"
		}
		o.err(errAny)
		return o
	}
	if ps == pInvalid || ps == pNoName || ps == pMidAppend {
		if vs == vMalformed {
			o.err(errAny)
		}
		return o
	}
	if ps == pOdd {
		// outside the documented grammar: rejecting it is fine, so is the literal reading
		o.err(cPI)
	}
	if vs == vMalformed {
		// A Value that is not exactly one msgpack value cannot be spliced. Rejecting it (any
		// class) is the expected outcome; a success is tolerated only if the document is
		// well-formed and everything outside the op's target is as documented.
		o.err(errAny)
		val = &node{wild: true}
	}

	d := clone(doc)
	r := resolve(d, segs)
	last := segs[len(segs)-1]
	sit := func(s string) {
		o.sit = s
		if ps == pOdd {
			o.sit = "oddpath:" + s
		}
		if vs == vMalformed {
			o.sit = "malformed-value:" + o.sit
		}
	}
	_ = kn

	switch op.Kind {
	case opSet:
		switch {
		case last.kind == sAppend:
			sit("append-marker")
			o.err(cPI | cTM)
		case r.kind == rFound && last.kind == sField:
			sit("found-field")
			r.parent.kids[r.idx] = val
			r.parent.setMoved(r.idx)
			o.ok(d)
		case r.kind == rFound: // index: proto says "final segment must be a field name", SDK docs show Tags[0]
			sit("found-index")
			r.parent.kids[r.idx] = val
			o.ok(d)
			o.err(cPI)
		case r.kind == rMissing && fieldsOnly(segs[r.at:]):
			if r.at == len(segs)-1 {
				sit("missing-final")
			} else {
				sit("missing-intermediate")
			}
			m := createChain(r.parent, segs[r.at:len(segs)-1])
			m.addEntry(last.name, val)
			o.ok(d)
		case r.kind == rMissing:
			sit("missing-before-index")
			o.err(cPI | cTM)
		case r.kind == rWrongKind:
			sit("wrong-kind")
			o.err(cPI | cTM)
		case r.kind == rOOR:
			sit("index-out-of-range")
			o.err(cPI)
		}

	case opDelete:
		switch {
		case last.kind == sAppend:
			sit("append-marker")
			o.err(cPI | cTM)
			if r.kind == rMissing || r.kind == rWrongKind || r.kind == rOOR {
				o.ok(d) // "missing target is a no-op"
			}
		case r.kind == rFound:
			if last.kind == sField {
				sit("found-field")
			} else {
				sit("found-index")
			}
			r.parent.removeAt(r.idx)
			o.ok(d)
		case r.kind == rMissing:
			sit("missing")
			o.ok(d)
		case r.kind == rWrongKind:
			sit("wrong-kind")
			o.ok(d)
			o.err(cPI | cTM)
		case r.kind == rOOR:
			sit("index-out-of-range")
			o.ok(d)
			o.err(cPI)
		}

	case opInc:
		modelInc(&o, d, r, segs, val, vs, sit)

	case opAppend, opPrepend:
		prepend := op.Kind == opPrepend
		insert := func(arr *node) {
			if prepend {
				arr.kids = append([]*node{val}, arr.kids...)
			} else {
				arr.kids = append(arr.kids, val)
			}
		}
		switch {
		case last.kind != sAppend:
			sit("no-append-marker")
			o.err(cPI | cTM)
		case r.kind == rAppend:
			sit("existing-array")
			insert(r.parent)
			o.ok(d)
		case r.kind == rMissing && fieldsOnly(segs[r.at:len(segs)-1]):
			if r.at == len(segs)-2 {
				sit("missing-array")
			} else {
				sit("missing-intermediate")
				o.err(cPI) // only SET documents auto-created intermediates
			}
			m := createChain(r.parent, segs[r.at:len(segs)-2])
			m.addEntry(segs[len(segs)-2].name, &node{kind: kArr, kids: []*node{val}})
			o.ok(d)
		case r.kind == rMissing:
			sit("missing-before-index")
			o.err(cPI | cTM)
		case r.kind == rWrongKind && r.at == len(segs)-1:
			sit("target-not-array")
			o.err(cTM)
		case r.kind == rWrongKind:
			sit("wrong-kind")
			o.err(cPI | cTM)
		case r.kind == rOOR:
			sit("index-out-of-range")
			o.err(cPI)
		}

	case opRemoveAt:
		switch {
		case last.kind != sIndex:
			sit("no-index")
			o.err(cPI | cTM)
		case r.kind == rFound:
			sit("found")
			r.parent.removeAt(r.idx)
			o.ok(d)
		case r.kind == rOOR:
			sit("index-out-of-range")
			o.err(cPI)
		case r.kind == rMissing:
			sit("missing")
			o.err(cPI)
			o.ok(d)
		case r.kind == rWrongKind:
			sit("wrong-kind")
			o.err(cPI | cTM)
		}

	case opRemoveVal:
		switch {
		case last.kind == sAppend:
			sit("append-marker")
			o.err(cPI | cTM)
			if r.kind == rMissing {
				o.ok(d)
			}
		case r.kind == rFound && r.target.kind == kArr:
			sit("array")
			if vs == vMalformed {
				// a malformed byte string never equals the encoding of an element
				sit("array")
				o.ok(d)
				break
			}
			for i, k := range r.target.kids {
				if string(k.raw) == string(op.Value) {
					if k.kind != kLeaf {
						// byte identity of containers is not a documented notion (headers may be
						// re-encoded): removing and not removing are both accepted
						sit("array-container-match")
						o.ok(clone(d))
					} else {
						sit("array-leaf-match")
					}
					r.target.removeAt(i)
					break
				}
			}
			o.ok(d)
		case r.kind == rFound:
			sit("target-not-array")
			o.err(cTM | cPI)
		case r.kind == rMissing:
			sit("missing")
			o.ok(d)
			o.err(cPI)
		case r.kind == rWrongKind:
			sit("wrong-kind")
			o.ok(d)
			o.err(cPI | cTM)
		case r.kind == rOOR:
			sit("index-out-of-range")
			o.ok(d)
			o.err(cPI)
		}

	case opMerge:
		if vs == vOK && val.kind != kMap {
			sit("value-not-map")
			o.err(cTM)
			// a path problem may be reported instead
			if last.kind == sAppend || r.kind == rWrongKind || r.kind == rOOR || (r.kind == rMissing && !fieldsOnly(segs[r.at:])) {
				o.err(cPI)
			}
			return o
		}
		if vs == vOK && hasDupKeys(val) {
			sit("value-dup-keys")
			o.any = true
			return o
		}
		mergeInto := func(t *node) {
			for i, k := range val.keys {
				if j := t.find(k); j >= 0 {
					t.kids[j] = val.kids[i]
					t.setMoved(j)
				} else {
					t.addEntry(k, val.kids[i])
				}
			}
		}
		switch {
		case last.kind == sAppend:
			sit("append-marker")
			o.err(cPI | cTM)
		case r.kind == rFound && r.target.kind == kMap:
			if last.kind == sField {
				sit("found-map")
			} else {
				sit("found-map-by-index")
				o.err(cPI)
			}
			if vs == vMalformed {
				r.parent.kids[r.idx] = val // wildcard
			} else {
				mergeInto(r.target)
			}
			o.ok(d)
		case r.kind == rFound:
			sit("target-not-map")
			o.err(cTM)
		case r.kind == rMissing && fieldsOnly(segs[r.at:]):
			sit("missing")
			o.err(cPI | cTM) // auto-creation is documented for SET only
			m := createChain(r.parent, segs[r.at:len(segs)-1])
			if vs == vMalformed {
				m.addEntry(last.name, val)
			} else {
				t := &node{kind: kMap}
				mergeInto(t)
				m.addEntry(last.name, t)
			}
			o.ok(d)
		case r.kind == rMissing:
			sit("missing-before-index")
			o.err(cPI | cTM)
		case r.kind == rWrongKind:
			sit("wrong-kind")
			o.err(cPI | cTM)
		case r.kind == rOOR:
			sit("index-out-of-range")
			o.err(cPI)
		}
	}
	return o
}

func allIntCodes() map[byte]bool {
	return map[byte]bool{0xcc: true, 0xcd: true, 0xce: true, 0xcf: true, 0xd0: true, 0xd1: true, 0xd2: true, 0xd3: true}
}

func modelInc(o *outs, d *node, r resolved, segs []seg, val *node, vs int, sit func(string)) {
	last := segs[len(segs)-1]
	deltaNumeric := vs == vOK && val.kind == kLeaf && famOf(val.code) != fNone
	dname := "malformed"
	if vs == vOK {
		dname = codeName(val.code)
	}
	switch {
	case last.kind == sAppend:
		sit("append-marker")
		o.err(cPI | cTM)
		return
	case r.kind == rWrongKind:
		sit("wrong-kind")
		o.err(cPI | cTM)
		return
	case r.kind == rOOR:
		sit("index-out-of-range")
		o.err(cPI)
		if vs == vOK && !deltaNumeric {
			o.err(cTM)
		}
		return
	case r.kind == rMissing:
		if !fieldsOnly(segs[r.at:]) {
			sit("missing-before-index")
			o.err(cPI | cTM)
			return
		}
		if vs == vOK && !deltaNumeric {
			sit("missing:delta-not-numeric")
			o.err(cTM | cPI)
			return
		}
		if r.at == len(segs)-1 {
			sit("missing-final:d=" + dname)
		} else {
			sit("missing-intermediate:d=" + dname)
			o.err(cPI) // only SET documents auto-created intermediates
		}
		// "Missing field auto-creates with the delta's type": the delta bytes verbatim
		m := createChain(r.parent, segs[r.at:len(segs)-1])
		m.addEntry(last.name, val)
		o.ok(d)
		return
	}
	// found
	t := r.target
	byIdx := ""
	if last.kind == sIndex {
		byIdx = "by-index:"
		o.err(cPI)
	}
	if t.kind != kLeaf || famOf(t.code) == fNone {
		sit(byIdx + "target-not-numeric")
		o.err(cTM)
		return
	}
	tname := codeName(t.code)
	if vs == vMalformed {
		sit(byIdx + "found:t=" + tname)
		r.parent.kids[r.idx] = val // wildcard
		if last.kind == sField {
			r.parent.setMoved(r.idx)
		}
		o.ok(d)
		return
	}
	if !deltaNumeric {
		sit(byIdx + "found:delta-not-numeric")
		o.err(cTM)
		return
	}
	sit(byIdx + "found:t=" + tname + ":d=" + dname)
	tf, df := famOf(t.code), famOf(val.code)
	put := func(n *node) {
		r.parent.kids[r.idx] = n
		if last.kind == sField {
			r.parent.setMoved(r.idx)
		}
		o.ok(d)
	}
	if (tf == fFloat) != (df == fFloat) {
		// "cross-class deltas (a float64 delta on an int32 field) are rejected as TYPE_MISMATCH"
		o.err(cTM)
		return
	}
	if tf == fFloat {
		tv, dv := floatValue(t.raw), floatValue(val.raw)
		sum := tv + dv
		if t.code == 0xca {
			a := float64(float32(sum))
			b := float64(float32(tv) + float32(dv))
			put(&node{kind: kLeaf, flex: &flexNum{codes: map[byte]bool{0xca: true}, fvals: []float64{a, b}}})
		} else {
			put(&node{kind: kLeaf, flex: &flexNum{codes: map[byte]bool{0xcb: true}, fvals: []float64{sum}}})
		}
		return
	}
	// integer families
	signed := func(f fam) bool { return f == fInt || f == fNegFix }
	strictSame := (signed(tf) && signed(df)) || (tf == fUint && df == fUint) || (tf == fPosFix && df == fPosFix)
	if !strictSame {
		// int vs uint, or a positive fixint (whose class the documentation does not fix) on
		// one side: rejecting as a class mismatch and adding are both accepted
		o.err(cTM)
	}
	sum := new(big.Int).Add(intValue(t.raw), intValue(val.raw))
	if tf == fInt || tf == fUint {
		lo, hi := intRange(t.code)
		if sum.Cmp(lo) >= 0 && sum.Cmp(hi) <= 0 {
			// "preserving the target's exact msgpack type code"
			put(&node{kind: kLeaf, code: t.code, raw: encIntCode(t.code, sum)})
		} else {
			// overflow is not documented: an error, or any value in the same type code
			o.sit += ":overflow"
			o.err(errAny)
			put(&node{kind: kLeaf, flex: &flexNum{codes: map[byte]bool{t.code: true}, anyValue: true}})
		}
		return
	}
	// fixint target: the code *is* the value, so "same code" is not meaningful; any integer
	// encoding of the sum is accepted
	min64, maxU64 := big.NewInt(math.MinInt64), new(big.Int).SetUint64(math.MaxUint64)
	if sum.Cmp(min64) >= 0 && sum.Cmp(maxU64) <= 0 {
		put(&node{kind: kLeaf, flex: &flexNum{codes: allIntCodes(), fixOK: true, ival: sum}})
	} else {
		o.sit += ":overflow"
		o.err(errAny)
		put(&node{kind: kLeaf, flex: &flexNum{codes: allIntCodes(), fixOK: true, anyValue: true}})
	}
}

// ---------------------------------------------------------------------------
// conditions

const (
	condEQ = iota
	condNE
	condGT
	condGTE
	condLT
	condLTE
	condExists
	condNotExists
)

var condNames = []string{"EQUAL", "NOT_EQUAL", "GREATER_THAN", "GREATER_THAN_OR_EQUAL", "LESS_THAN", "LESS_THAN_OR_EQUAL", "EXISTS", "NOT_EXISTS"}

func condName(k int) string {
	if k >= 0 && k < len(condNames) {
		return condNames[k]
	}
	return "UNKNOWN_OP"
}

type condT struct {
	Path      string
	Op        int
	Threshold []byte
}

// condOuts: which of {proceed, CONDITION_NOT_MET, error classes} are acceptable.
type condOuts struct {
	sit     string
	proceed bool
	errs    classSet // may include cCNM
	nan     bool     // a NaN operand in a float/float comparison (extra consistency clause)
}

func holds(op int, cmp int) bool {
	switch op {
	case condEQ:
		return cmp == 0
	case condNE:
		return cmp != 0
	case condGT:
		return cmp > 0
	case condGTE:
		return cmp >= 0
	case condLT:
		return cmp < 0
	case condLTE:
		return cmp <= 0
	}
	return false
}

func modelCond(doc *node, c condT) condOuts {
	var o condOuts
	decided := func(met bool) {
		if met {
			o.proceed = true
		} else {
			o.errs |= cCNM
		}
	}
	if c.Op < 0 || c.Op > condNotExists {
		o.sit = "unknown-operator"
		o.errs = errAny | cCNM
		return o
	}
	segs, ps := parsePath(c.Path)
	if ps == pInvalid || ps == pNoName {
		o.sit = "path-malformed"
		o.errs = errAny | cCNM // must not proceed
		return o
	}
	if ps == pMidAppend {
		o.sit = "append-marker-not-last"
		o.errs = errAny | cCNM
		var prefix []seg
		for _, sg := range segs {
			if sg.kind == sAppend {
				break
			}
			prefix = append(prefix, sg)
		}
		if len(prefix) > 0 && c.Op == condNotExists {
			if r := resolve(doc, prefix); r.kind == rMissing || r.kind == rWrongKind || r.kind == rOOR {
				o.sit += ":prefix-missing"
				o.proceed = true
			}
		}
		return o
	}
	last := segs[len(segs)-1]
	if last.kind == sAppend {
		// the marker is documented for op paths ("valid only with APPEND/PREPEND"); nothing is
		// said about condition paths: an error, "not met", or "there is no such leaf"
		o.sit = "append-marker"
		o.errs = errAny | cCNM
		if c.Op == condNotExists {
			o.proceed = true
		}
		return o
	}
	if ps == pOdd {
		o.errs |= cPI
	}
	r := resolve(doc, segs)
	exOp := c.Op == condExists || c.Op == condNotExists
	if exOp {
		// "EXISTS / NOT_EXISTS test for the presence of a leaf field at Path. Threshold is ignored"
		want := c.Op == condExists
		switch r.kind {
		case rFound:
			if r.target.kind == kLeaf {
				o.sit = "exists:leaf"
				decided(want)
			} else {
				o.sit = "exists:container" // "leaf field": a container may or may not count
				o.proceed = true
				o.errs |= cCNM
			}
		case rMissing:
			o.sit = "exists:missing"
			decided(!want)
		case rWrongKind:
			o.sit = "exists:wrong-kind"
			decided(!want)
			o.errs |= cPI | cTM
		case rOOR:
			o.sit = "exists:index-out-of-range"
			decided(!want)
			o.errs |= cPI
		}
		if ps == pOdd {
			o.sit = "oddpath:" + o.sit
		}
		return o
	}
	// comparators
	switch r.kind {
	case rMissing:
		o.sit = "cmp:missing"
		o.errs |= cCNM | errAny
		if c.Op == condNE {
			o.proceed = true
		}
		return o
	case rWrongKind:
		o.sit = "cmp:wrong-kind"
		o.errs |= cCNM | cPI | cTM
		return o
	case rOOR:
		o.sit = "cmp:index-out-of-range"
		o.errs |= cCNM | cPI
		return o
	}
	if len(c.Threshold) == 0 {
		o.sit = "cmp:threshold-absent"
		o.errs |= cCNM | errAny
		return o
	}
	th, err := decode(c.Threshold)
	if err != nil {
		o.sit = "cmp:threshold-malformed"
		o.proceed = true
		o.errs |= cCNM | errAny
		return o
	}
	t := r.target
	tc, hc := typeClass(t.code), typeClass(th.code)
	o.sit = "cmp:" + tc + "-vs-" + hc
	if ps == pOdd {
		o.sit = "oddpath:" + o.sit
	}
	if t.kind != kLeaf || th.kind != kLeaf {
		o.errs |= cCNM | errAny
		return o
	}
	isNum := func(s string) bool { return s == "float" || s == "posfix" || s == "int" || s == "uint" }
	isInt := func(s string) bool { return s == "posfix" || s == "int" || s == "uint" }
	switch {
	case tc == "float" && hc == "float":
		a, b := floatValue(t.raw), floatValue(th.raw)
		if math.IsNaN(a) || math.IsNaN(b) {
			// "NaN compares equal to nothing". EQUAL must not hold, NOT_EQUAL must not be
			// "not met"; the ordering operators are only constrained by consistency
			// (>= means > or ==), checked separately. Rejecting NaN with an error is fine.
			o.sit += ":nan"
			o.nan = true
			o.errs |= errAny
			switch c.Op {
			case condEQ:
				o.errs |= cCNM
			case condNE:
				o.proceed = true
			default:
				o.proceed = true
				o.errs |= cCNM
			}
			return o
		}
		cmp := 0
		if a < b {
			cmp = -1
		} else if a > b {
			cmp = 1
		}
		decided(holds(c.Op, cmp))
	case isInt(tc) && isInt(hc):
		cmp := intValue(t.raw).Cmp(intValue(th.raw))
		decided(holds(c.Op, cmp))
		if !(tc == hc) {
			// "numeric comparisons respect int vs uint vs float": a class mismatch may be an error
			o.errs |= errAny
			o.sit += ":cross-class"
		}
	case isNum(tc) && isNum(hc):
		// float vs integer: crossing a type boundary; numeric comparison also tolerated
		o.proceed = true
		o.errs |= cCNM | errAny
	case isNum(tc) || isNum(hc):
		o.errs |= cCNM | errAny
		if c.Op == condNE {
			o.proceed = true
		}
	case tc == "str" && hc == "str", tc == "bin" && hc == "bin":
		a, b := string(strPayload(t.raw)), string(strPayload(th.raw))
		cmp := strings.Compare(a, b)
		if c.Op == condEQ || c.Op == condNE {
			decided(holds(c.Op, cmp))
			if cmp == 0 && string(t.raw) != string(th.raw) {
				// same content, different length form: "byte-exact" may mean either
				o.sit += ":same-content-different-form"
				o.proceed = true
				o.errs |= cCNM
			}
			if tc == "bin" {
				o.errs |= errAny // bin comparison is not documented
			}
		} else {
			// ordering of strings is not documented beyond "byte-exact": lexicographic or an error
			decided(holds(c.Op, cmp))
			o.errs |= errAny
		}
	case tc == "bool" && hc == "bool":
		a, b := 0, 0
		if t.code == 0xc3 {
			a = 1
		}
		if th.code == 0xc3 {
			b = 1
		}
		cmp := a - b
		decided(holds(c.Op, cmp))
		if c.Op != condEQ && c.Op != condNE {
			o.errs |= errAny
		}
	case tc == hc: // nil, ext
		eq := string(t.raw) == string(th.raw)
		o.errs |= errAny
		switch c.Op {
		case condEQ:
			decided(eq)
		case condNE:
			decided(!eq)
		default:
			o.proceed = true
			o.errs |= cCNM
		}
	default: // different non-numeric types
		o.errs |= cCNM | errAny
		if c.Op == condNE {
			o.proceed = true
		}
	}
	return o
}
