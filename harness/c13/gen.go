package c13

import (
	"encoding/hex"
	"encoding/json"
	"fmt"
	"math"
	"math/big"
	"math/rand/v2"
)

// hexb is a byte string that travels as hex in JSON (cases / witnesses / replays).
type hexb []byte

func (h hexb) MarshalJSON() ([]byte, error) { return json.Marshal(hex.EncodeToString(h)) }
func (h *hexb) UnmarshalJSON(b []byte) error {
	var s string
	if err := json.Unmarshal(b, &s); err != nil {
		return err
	}
	v, err := hex.DecodeString(s)
	*h = v
	return err
}

type opJ struct {
	Kind  int    `json:"kind"`
	Name  string `json:"name,omitempty"`
	Path  string `json:"path"`
	Value *hexb  `json:"value"` // null = absent
}

type condJ struct {
	Path      string `json:"path"`
	Op        int    `json:"op"`
	Name      string `json:"name,omitempty"`
	Threshold *hexb  `json:"threshold"`
}

type caseT struct {
	Body hexb   `json:"body"`
	Ops  []opJ  `json:"ops"`
	Cond *condJ `json:"cond,omitempty"`
	E2E  string `json:"e2e,omitempty"` // "", "existing", "create"
}

func (o opJ) op() opT {
	var v []byte
	if o.Value != nil {
		v = []byte(*o.Value)
	}
	return opT{Kind: o.Kind, Path: o.Path, Value: v}
}

func (c *condJ) cond() condT {
	var v []byte
	if c.Threshold != nil {
		v = []byte(*c.Threshold)
	}
	return condT{Path: c.Path, Op: c.Op, Threshold: v}
}

type gen struct{ r *rand.Rand }

func (g *gen) p(pct int) bool { return g.r.IntN(100) < pct }

func pick[T any](g *gen, xs []T) T { return xs[g.r.IntN(len(xs))] }

var plainKeys = []string{"a", "b", "c", "d", "n", "cnt", "Tags", "m", "arr", "x", "y", "Foo", "Bar", "k1", "k2", "f32", "f64", "s", "flag", "Owner"}
var oddKeys = []string{"a.b", "", "é", "sp ace", "x[0]", "#len", "a-b"}
var newNames = []string{"new1", "new2", "zz", "q1", "Q_2"}

func (g *gen) intLeaf(code byte) []byte {
	lo, hi := intRange(code)
	cands := []*big.Int{big.NewInt(0), big.NewInt(1), big.NewInt(5), big.NewInt(100), lo, hi,
		new(big.Int).Sub(hi, big.NewInt(1)), new(big.Int).Add(lo, big.NewInt(1)), big.NewInt(-1), big.NewInt(-7)}
	for tries := 0; tries < 20; tries++ {
		v := pick(g, cands)
		if v.Cmp(lo) >= 0 && v.Cmp(hi) <= 0 {
			return encIntCode(code, v)
		}
	}
	return encIntCode(code, big.NewInt(0))
}

var floatVals = []float64{math.NaN(), math.Inf(1), math.Inf(-1), 0, math.Copysign(0, -1), 1.5, -2.25, 3, 1e30, -1e30, 3.0e38, 1.7e308, 0.1}

func (g *gen) floatLeaf(code byte) []byte {
	v := pick(g, floatVals)
	if g.p(20) {
		v = math.NaN()
	}
	if code == 0xca {
		return encFloat32(float32(v))
	}
	return encFloat64(v)
}

func (g *gen) shortBytes(max int) []byte {
	n := g.r.IntN(max + 1)
	b := make([]byte, n)
	for i := range b {
		b[i] = byte(g.r.IntN(256))
	}
	return b
}

var words = []string{"", "a", "alice", "bob", "boot", "worker-A", "x", "hello world", "Ünï", "0", "zz"}

// leafKinds enumerates every leaf encoding family of the MessagePack spec.
var leafKinds = []string{"posfix", "negfix", "uint8", "uint16", "uint32", "uint64", "int8", "int16", "int32", "int64",
	"float32", "float64", "fixstr", "str8", "str16", "str32", "bin8", "bin16", "bin32", "ext8", "ext16", "ext32",
	"fixext1", "fixext2", "fixext4", "fixext8", "fixext16", "nil", "true", "false"}

func (g *gen) leafOf(k string) []byte {
	switch k {
	case "posfix":
		return []byte{byte(pick(g, []int{0, 1, 2, 5, 42, 126, 127}))}
	case "negfix":
		return []byte{byte(int8(pick(g, []int{-1, -2, -7, -31, -32})))}
	case "uint8":
		return g.intLeaf(0xcc)
	case "uint16":
		return g.intLeaf(0xcd)
	case "uint32":
		return g.intLeaf(0xce)
	case "uint64":
		return g.intLeaf(0xcf)
	case "int8":
		return g.intLeaf(0xd0)
	case "int16":
		return g.intLeaf(0xd1)
	case "int32":
		return g.intLeaf(0xd2)
	case "int64":
		return g.intLeaf(0xd3)
	case "float32":
		return g.floatLeaf(0xca)
	case "float64":
		return g.floatLeaf(0xcb)
	case "fixstr":
		return encStrForm(pick(g, words), 0)
	case "str8":
		if g.p(30) {
			return encStrForm(string(make([]byte, 40)), 1)
		}
		return encStrForm(pick(g, words), 1)
	case "str16":
		if g.p(20) {
			return encStrForm(string(make([]byte, 300)), 2)
		}
		return encStrForm(pick(g, words), 2)
	case "str32":
		return encStrForm(pick(g, words), 3)
	case "bin8":
		return encBinForm(g.shortBytes(6), 1)
	case "bin16":
		return encBinForm(g.shortBytes(6), 2)
	case "bin32":
		return encBinForm(g.shortBytes(6), 3)
	case "ext8":
		p := g.shortBytes(12)
		return append([]byte{0xc7, byte(len(p)), byte(g.extType())}, p...)
	case "ext16":
		p := g.shortBytes(5)
		return append([]byte{0xc8, 0, byte(len(p)), byte(g.extType())}, p...)
	case "ext32":
		p := g.shortBytes(5)
		return append([]byte{0xc9, 0, 0, 0, byte(len(p)), byte(g.extType())}, p...)
	case "fixext1", "fixext2", "fixext4", "fixext8", "fixext16":
		n := map[string]int{"fixext1": 1, "fixext2": 2, "fixext4": 4, "fixext8": 8, "fixext16": 16}[k]
		c := map[int]byte{1: 0xd4, 2: 0xd5, 4: 0xd6, 8: 0xd7, 16: 0xd8}[n]
		p := make([]byte, n)
		for i := range p {
			p[i] = byte(g.r.IntN(256))
		}
		return append([]byte{c, byte(g.extType())}, p...)
	case "nil":
		return []byte{0xc0}
	case "true":
		return []byte{0xc3}
	}
	return []byte{0xc2}
}

func (g *gen) extType() int8 { return int8(pick(g, []int{-1, 0, 1, 5, 127, -128})) }

func (g *gen) leaf() []byte { return g.leafOf(pick(g, leafKinds)) }

func (g *gen) headerForm() int {
	if g.p(85) {
		return 0
	}
	return 2 + g.r.IntN(2)
}

func (g *gen) count() int {
	if g.p(6) {
		return 15 + g.r.IntN(2) // fixarray/array16 and fixmap/map16 boundary
	}
	return g.r.IntN(6)
}

func (g *gen) value(depth int) []byte {
	x := g.r.IntN(100)
	switch {
	case depth >= 3 || x < 62:
		return g.leaf()
	case x < 81:
		return g.mapBody(depth+1, g.count())
	default:
		return g.array(depth + 1)
	}
}

func (g *gen) array(depth int) []byte {
	n := g.count()
	var items [][]byte
	for i := 0; i < n; i++ {
		if i > 0 && g.p(12) {
			items = append(items, items[g.r.IntN(len(items))]) // duplicates, for REMOVE_VAL "first"
		} else if depth >= 2 && n > 6 {
			items = append(items, g.leaf())
		} else {
			items = append(items, g.value(depth))
		}
	}
	out := encContainerHeader(false, n, g.headerForm())
	for _, it := range items {
		out = append(out, it...)
	}
	return out
}

func (g *gen) keys(n int) []string {
	seen := map[string]bool{}
	var out []string
	for len(out) < n {
		var k string
		switch {
		case g.p(6):
			k = pick(g, oddKeys)
		case len(out) >= len(plainKeys)-4 || g.p(4):
			k = fmt.Sprintf("g%d", g.r.IntN(1000))
		default:
			k = pick(g, plainKeys)
		}
		if !seen[k] {
			seen[k] = true
			out = append(out, k)
		}
	}
	return out
}

func (g *gen) mapBody(depth, n int) []byte {
	ks := g.keys(n)
	out := encContainerHeader(true, n, g.headerForm())
	for _, k := range ks {
		form := 0
		if g.p(10) {
			form = 1 + g.r.IntN(3)
		}
		out = append(out, encStrForm(k, form)...)
		if depth >= 2 && n > 6 {
			out = append(out, g.leaf()...)
		} else {
			out = append(out, g.value(depth)...)
		}
	}
	return out
}

// body: a root map that usually has a few numeric fields, an array and a nested map.
func (g *gen) body() []byte {
	n := g.count()
	if n == 0 && g.p(70) {
		n = 3
	}
	return g.mapBody(0, n)
}

// ---------------------------------------------------------------------------
// paths

type pinfo struct {
	path string
	n    *node
}

func enumerate(root *node) []pinfo {
	var out []pinfo
	var walk func(n *node, prefix string)
	walk = func(n *node, prefix string) {
		switch n.kind {
		case kMap:
			for i, k := range n.keys {
				if !plainName.MatchString(k) {
					continue
				}
				p := k
				if prefix != "" {
					p = prefix + "." + k
				}
				out = append(out, pinfo{p, n.kids[i]})
				walk(n.kids[i], p)
			}
		case kArr:
			for i, k := range n.kids {
				p := fmt.Sprintf("%s[%d]", prefix, i)
				out = append(out, pinfo{p, k})
				walk(k, p)
			}
		}
	}
	walk(root, "")
	return out
}

func filter(infos []pinfo, f func(*node) bool) []pinfo {
	var out []pinfo
	for _, i := range infos {
		if f(i.n) {
			out = append(out, i)
		}
	}
	return out
}

var invalidPaths = []string{"", ".", "a..b", ".a", "a.", "a[", "a[1", "a[x]", "a[*]", "arr[*]", "a[1]b", "a[1.5]", "a[ 1]", "a[][0]", "arr[].b", "[]", "[0]", "a]", "a.[0]", "Tags[*].x"}
var oddPathSuffix = []string{"[-1]", "[-2]", "[01]", "[+1]", "[-99]", "[99999999999999999999]"}
var oddNames = []string{"sp ace", "é", "a-b", "#len", "$x"}

const (
	pcAny = iota
	pcNumeric
	pcArray
	pcMap
	pcLeaf
	pcMissingFinal
	pcMissingDeep
	pcOOR
	pcWrongKind
	pcAppendArr
	pcAppendMissing
	pcAppendWrong
	pcAppendDeep
	pcInvalid
	pcOdd
	pcElem
)

// weights per op kind: which path categories are worth generating how often
var pathWeights = map[int][][2]int{
	opSet:       {{pcAny, 30}, {pcMissingFinal, 20}, {pcMissingDeep, 12}, {pcElem, 8}, {pcOOR, 5}, {pcWrongKind, 8}, {pcAppendArr, 3}, {pcInvalid, 7}, {pcOdd, 7}},
	opDelete:    {{pcAny, 40}, {pcMissingFinal, 10}, {pcMissingDeep, 5}, {pcElem, 12}, {pcOOR, 7}, {pcWrongKind, 8}, {pcAppendArr, 3}, {pcAppendMissing, 2}, {pcInvalid, 7}, {pcOdd, 6}},
	opInc:       {{pcNumeric, 45}, {pcAny, 8}, {pcMissingFinal, 12}, {pcMissingDeep, 6}, {pcOOR, 4}, {pcWrongKind, 6}, {pcAppendArr, 2}, {pcInvalid, 5}, {pcOdd, 4}, {pcElem, 8}},
	opAppend:    {{pcAppendArr, 40}, {pcAppendMissing, 12}, {pcAppendWrong, 10}, {pcAppendDeep, 8}, {pcArray, 8}, {pcAny, 4}, {pcOOR, 3}, {pcWrongKind, 4}, {pcInvalid, 6}, {pcOdd, 5}},
	opRemoveAt:  {{pcElem, 40}, {pcOOR, 15}, {pcArray, 8}, {pcAny, 6}, {pcMissingFinal, 6}, {pcWrongKind, 10}, {pcAppendArr, 3}, {pcInvalid, 6}, {pcOdd, 6}},
	opRemoveVal: {{pcArray, 55}, {pcAny, 8}, {pcMissingFinal, 8}, {pcMissingDeep, 4}, {pcOOR, 4}, {pcWrongKind, 6}, {pcAppendArr, 3}, {pcInvalid, 6}, {pcOdd, 6}},
	opMerge:     {{pcMap, 45}, {pcAny, 8}, {pcMissingFinal, 12}, {pcMissingDeep, 8}, {pcOOR, 4}, {pcWrongKind, 6}, {pcAppendArr, 2}, {pcInvalid, 5}, {pcOdd, 5}, {pcElem, 5}},
}

func (g *gen) weighted(w [][2]int) int {
	total := 0
	for _, x := range w {
		total += x[1]
	}
	v := g.r.IntN(total)
	for _, x := range w {
		if v < x[1] {
			return x[0]
		}
		v -= x[1]
	}
	return w[0][0]
}

func (g *gen) pathFor(infos []pinfo, kind int) (string, *node) {
	w := pathWeights[kind]
	if kind == opPrepend {
		w = pathWeights[opAppend]
	}
	if w == nil {
		w = pathWeights[opSet]
	}
	cat := g.weighted(w)
	return g.pathOf(infos, cat)
}

func (g *gen) pathOf(infos []pinfo, cat int) (string, *node) {
	from := func(l []pinfo) (string, *node, bool) {
		if len(l) == 0 {
			return "", nil, false
		}
		x := l[g.r.IntN(len(l))]
		return x.path, x.n, true
	}
	arrays := filter(infos, func(n *node) bool { return n.kind == kArr })
	maps := filter(infos, func(n *node) bool { return n.kind == kMap })
	leaves := filter(infos, func(n *node) bool { return n.kind == kLeaf })
	switch cat {
	case pcNumeric:
		if p, n, ok := from(filter(infos, func(n *node) bool { return n.kind == kLeaf && famOf(n.code) != fNone })); ok {
			return p, n
		}
	case pcArray:
		if p, n, ok := from(arrays); ok {
			return p, n
		}
	case pcMap:
		if p, n, ok := from(maps); ok {
			return p, n
		}
	case pcLeaf:
		if p, n, ok := from(leaves); ok {
			return p, n
		}
	case pcElem:
		if p, n, ok := from(filter(arrays, func(n *node) bool { return len(n.kids) > 0 })); ok {
			i := g.r.IntN(len(n.kids))
			return fmt.Sprintf("%s[%d]", p, i), n.kids[i]
		}
	case pcMissingFinal:
		if p, _, ok := from(maps); ok && g.p(50) {
			return p + "." + pick(g, newNames), nil
		}
		return pick(g, newNames), nil
	case pcMissingDeep:
		base := ""
		if p, _, ok := from(maps); ok && g.p(40) {
			base = p + "."
		}
		return base + pick(g, [][]string{{"q1.q2"}, {"q1.q2.q3"}, {"zz.f"}})[0], nil
	case pcOOR:
		if p, n, ok := from(arrays); ok {
			suffix := ""
			if g.p(25) {
				suffix = ".x"
			}
			return fmt.Sprintf("%s[%d]%s", p, len(n.kids)+g.r.IntN(3), suffix), nil
		}
	case pcWrongKind:
		switch g.r.IntN(4) {
		case 0:
			if p, _, ok := from(leaves); ok {
				return p + ".x", nil
			}
		case 1:
			if p, _, ok := from(leaves); ok {
				return p + "[0]", nil
			}
		case 2:
			if p, _, ok := from(maps); ok {
				return p + "[0]", nil
			}
		default:
			if p, _, ok := from(arrays); ok {
				return p + ".x", nil
			}
		}
	case pcAppendArr:
		if p, n, ok := from(arrays); ok {
			return p + "[]", n
		}
		return pick(g, newNames) + "[]", nil
	case pcAppendMissing:
		if p, _, ok := from(maps); ok && g.p(40) {
			return p + "." + pick(g, newNames) + "[]", nil
		}
		return pick(g, newNames) + "[]", nil
	case pcAppendWrong:
		if g.p(50) {
			if p, _, ok := from(leaves); ok {
				return p + "[]", nil
			}
		}
		if p, _, ok := from(maps); ok {
			return p + "[]", nil
		}
	case pcAppendDeep:
		return pick(g, []string{"q1.q2.Tags[]", "zz.list[]", "q1.q2.q3.l[]"}), nil
	case pcInvalid:
		return pick(g, invalidPaths), nil
	case pcOdd:
		if g.p(60) {
			if p, _, ok := from(arrays); ok {
				return p + pick(g, oddPathSuffix), nil
			}
		}
		return pick(g, oddNames), nil
	}
	if p, n, ok := from(infos); ok {
		return p, n
	}
	return pick(g, plainKeys), nil
}

// ---------------------------------------------------------------------------
// values

func hp(b []byte) *hexb {
	if b == nil {
		return nil
	}
	h := hexb(append([]byte{}, b...))
	return &h
}

// malform turns a well-formed value into a byte string that is not exactly one value.
func (g *gen) malform(v []byte) ([]byte, string) {
	for tries := 0; tries < 8; tries++ {
		var out []byte
		cls := ""
		switch g.r.IntN(5) {
		case 0: // truncated
			if len(v) < 2 {
				continue
			}
			out = append([]byte{}, v[:1+g.r.IntN(len(v)-1)]...)
			cls = "truncated"
		case 1: // trailing garbage
			out = append(append([]byte{}, v...), g.shortBytes(2)...)
			out = append(out, 0xff)
			cls = "trailing"
		case 2: // two concatenated values
			out = append(append([]byte{}, v...), g.leaf()...)
			cls = "two-values"
		case 3: // reserved code
			out = []byte{0xc1}
			cls = "reserved-code"
		default: // header promising more than there is
			out = pick(g, [][]byte{{0xa5, 'a'}, {0x92, 0x01}, {0x81, 0xa1, 'k'}, {0xd9, 0x10, 'x'}, {0xcd, 0x01}, {0xdc, 0x00}, {0xc7, 0x05, 0x01}})
			cls = "short-of-header"
		}
		if _, err := decode(out); err != nil && len(out) > 0 {
			return out, cls
		}
	}
	return []byte{0xc1}, "reserved-code"
}

func reencodeInt(g *gen, raw []byte) []byte {
	v := intValue(raw)
	codes := []byte{0xcc, 0xcd, 0xce, 0xcf, 0xd0, 0xd1, 0xd2, 0xd3}
	for tries := 0; tries < 10; tries++ {
		c := pick(g, codes)
		lo, hi := intRange(c)
		if c != raw[0] && v.Cmp(lo) >= 0 && v.Cmp(hi) <= 0 {
			return encIntCode(c, v)
		}
	}
	return raw
}

func (g *gen) incDelta(t *node) []byte {
	smallFor := func(c byte) []byte {
		lo, _ := intRange(c)
		vals := []int64{1, 1, 2, 10, 100, 127}
		if lo.Sign() < 0 {
			vals = append(vals, -1, -1, -5, -100)
		}
		return encIntCode(c, big.NewInt(pick(g, vals)))
	}
	if t == nil || t.kind != kLeaf || famOf(t.code) == fNone {
		// missing / non-numeric target
		switch x := g.r.IntN(100); {
		case x < 70:
			return g.leafOf(pick(g, []string{"posfix", "negfix", "uint8", "uint16", "uint32", "uint64", "int8", "int16", "int32", "int64", "float32", "float64"}))
		case x < 90:
			return g.leaf()
		default:
			return g.value(2)
		}
	}
	f := famOf(t.code)
	x := g.r.IntN(100)
	switch {
	case f == fFloat:
		switch {
		case x < 45:
			return g.leafOf(codeName(t.code))
		case x < 75:
			return g.leafOf(pick(g, []string{"float32", "float64"}))
		case x < 90:
			return g.leafOf(pick(g, []string{"posfix", "int32", "uint8", "int64"}))
		default:
			return g.leaf()
		}
	case f == fInt || f == fUint:
		switch {
		case x < 35:
			return smallFor(t.code)
		case x < 50: // same code, large: overflow candidates
			return g.intLeaf(t.code)
		case x < 65: // same family, other width
			if f == fInt {
				return smallFor(pick(g, []byte{0xd0, 0xd1, 0xd2, 0xd3}))
			}
			return smallFor(pick(g, []byte{0xcc, 0xcd, 0xce, 0xcf}))
		case x < 75:
			return g.leafOf(pick(g, []string{"posfix", "negfix"}))
		case x < 85: // other integer family
			if f == fInt {
				return smallFor(pick(g, []byte{0xcc, 0xcd, 0xce, 0xcf}))
			}
			return smallFor(pick(g, []byte{0xd0, 0xd1, 0xd2, 0xd3}))
		case x < 93:
			return g.leafOf(pick(g, []string{"float32", "float64"}))
		default:
			return g.leaf()
		}
	default: // fixint target
		switch {
		case x < 35:
			return g.leafOf("posfix")
		case x < 55:
			return g.leafOf("negfix")
		case x < 85:
			return g.leafOf(pick(g, []string{"uint8", "uint64", "int8", "int64", "int32", "uint16"}))
		case x < 93:
			return g.leafOf(pick(g, []string{"float32", "float64"}))
		default:
			return g.leaf()
		}
	}
}

func (g *gen) mergeValue(t *node) []byte {
	if g.p(10) {
		if g.p(50) {
			return g.leaf()
		}
		return g.array(2)
	}
	n := g.r.IntN(5)
	seen := map[string]bool{}
	var ks []string
	for len(ks) < n {
		var k string
		if t != nil && t.kind == kMap && len(t.keys) > 0 && g.p(50) {
			k = pick(g, t.keys)
		} else if g.p(50) {
			k = pick(g, newNames)
		} else {
			k = pick(g, plainKeys)
		}
		if !seen[k] {
			seen[k] = true
			ks = append(ks, k)
		}
	}
	out := encContainerHeader(true, len(ks), g.headerForm())
	for _, k := range ks {
		form := 0
		if g.p(10) {
			form = 1 + g.r.IntN(3)
		}
		out = append(out, encStrForm(k, form)...)
		if j := -1; t != nil && t.kind == kMap {
			if j = t.find(k); j >= 0 && t.kids[j].kind == kLeaf && famOf(t.kids[j].code) != fNone && g.p(60) {
				out = append(out, g.retypedValue(t.kids[j])...) // overwrite a numeric with another numeric code
				continue
			}
		}
		out = append(out, g.value(2)...)
	}
	return out
}

func (g *gen) removeValue(t *node) []byte {
	if t != nil && t.kind == kArr && len(t.kids) > 0 {
		k := pick(g, t.kids)
		switch x := g.r.IntN(100); {
		case x < 65:
			return k.raw
		case x < 80 && k.kind == kLeaf && isIntFam(famOf(k.code)):
			return reencodeInt(g, k.raw)
		}
	}
	return g.value(2)
}

func (g *gen) opWithTarget(infos []pinfo) (opJ, *node) {
	o, _, t := g.opFull(infos)
	return o, t
}

func (g *gen) op(infos []pinfo) (opJ, string) {
	o, v, _ := g.opFull(infos)
	return o, v
}

func (g *gen) opFull(infos []pinfo) (opJ, string, *node) {
	kind := g.r.IntN(8)
	if g.p(1) {
		kind = 8 + g.r.IntN(3) // not a documented kind
	}
	path, target := g.pathFor(infos, kind)
	var val []byte
	switch kind {
	case opSet, opAppend, opPrepend:
		val = g.value(1)
	case opInc:
		val = g.incDelta(target)
	case opRemoveVal:
		val = g.removeValue(target)
	case opMerge:
		val = g.mergeValue(target)
	case opDelete, opRemoveAt:
		if g.p(15) {
			val = g.leaf() // "ignored for DELETE / REMOVE_AT"
		}
		if g.p(5) {
			val = []byte{0xc1, 0xff}
		}
	default:
		val = g.leaf()
	}
	vstate := "ok"
	if kind != opDelete && kind != opRemoveAt {
		switch x := g.r.IntN(100); {
		case x < 12:
			var cls string
			val, cls = g.malform(val)
			vstate = "malformed-" + cls
		case x < 16:
			val = nil
			vstate = "absent"
		}
	}
	return opJ{Kind: kind, Name: opName(kind), Path: path, Value: hp(val)}, vstate, target
}

func (g *gen) cond(infos []pinfo) *condJ {
	op := g.r.IntN(8)
	if g.p(1) {
		op = 8 + g.r.IntN(2)
	}
	w := [][2]int{{pcLeaf, 62}, {pcNumeric, 10}, {pcMissingFinal, 7}, {pcMissingDeep, 2}, {pcMap, 3}, {pcArray, 3}, {pcOOR, 3}, {pcWrongKind, 4}, {pcInvalid, 3}, {pcOdd, 2}, {pcAppendArr, 1}}
	path, t := g.pathOf(infos, g.weighted(w))
	var th []byte
	if t != nil && t.kind == kLeaf {
		f := famOf(t.code)
		x := g.r.IntN(100)
		switch {
		case x < 28:
			th = t.raw // exactly the stored bytes
		case x < 50 && isIntFam(f): // same value or neighbour, possibly another code
			v := new(big.Int).Add(intValue(t.raw), big.NewInt(int64(g.r.IntN(3)-1)))
			cands := []byte{t.code, 0xcc, 0xcd, 0xce, 0xcf, 0xd0, 0xd1, 0xd2, 0xd3}
			for tries := 0; tries < 12 && th == nil; tries++ {
				c := pick(g, cands)
				if lo, hi := intRange(c); lo != nil && v.Cmp(lo) >= 0 && v.Cmp(hi) <= 0 {
					th = encIntCode(c, v)
				} else if lo == nil && v.Sign() >= 0 && v.Cmp(big.NewInt(127)) <= 0 {
					th = []byte{byte(v.Int64())}
				}
			}
			if th == nil {
				th = t.raw
			}
		case x < 50 && f == fFloat:
			switch g.r.IntN(4) {
			case 0:
				th = encFloat64(math.NaN())
			case 1:
				th = encFloat32(float32(math.NaN()))
			case 2:
				th = encFloat64(floatValue(t.raw)) // same value, possibly other width
			default:
				th = g.floatLeaf(pick(g, []byte{0xca, 0xcb}))
			}
		case x < 50 && (isStrCode(t.code) || isBinCode(t.code)):
			p := strPayload(t.raw)
			if isStrCode(t.code) {
				th = encStrForm(string(p)+pick(g, []string{"", "", "a", "\x00"}), g.r.IntN(4))
			} else {
				th = encBinForm(p, 1+g.r.IntN(3))
			}
		case x < 70: // same kind of leaf, other value
			th = g.leafOf(codeNameToKind(t.code))
		case x < 90:
			th = g.leaf()
		default:
			th = g.value(2)
		}
	} else {
		th = g.leaf()
	}
	switch x := g.r.IntN(100); {
	case x < 5:
		th, _ = g.malform(th)
	case x < 9:
		th = nil
	}
	return &condJ{Path: path, Op: op, Name: condName(op), Threshold: hp(th)}
}

func codeNameToKind(c byte) string {
	switch n := codeName(c); n {
	case "posfixint":
		return "posfix"
	case "negfixint":
		return "negfix"
	default:
		return n
	}
}

// genCase builds one (body, ops, cond) triple.
func genCase(r *rand.Rand) caseT {
	g := &gen{r: r}
	var c caseT
	c.Body = g.body()
	root, err := decode(c.Body)
	if err != nil {
		panic(fmt.Sprintf("generator produced a malformed body: %v % x", err, []byte(c.Body)))
	}
	if g.p(2) {
		// outside the documented domain: a non-string key somewhere (must be rejected)
		c.Body = append(encContainerHeader(true, 2, 0), append(append(encStrForm("a", 0), 0x01), append([]byte{0x05}, 0x02)...)...)
		if g.p(50) {
			c.Body = append(append([]byte{0x81}, encStrForm("m", 0)...), c.Body...)
		}
		root = &node{kind: kMap}
	}
	infos := enumerate(root)
	nops := 1 + g.r.IntN(4)
	if g.p(4) {
		nops = 0
	}
	// half of the lists are biased towards dependent chains: a later op addresses what an
	// earlier op of the same list wrote (same path or below it)
	chained := g.p(50)
	for i := 0; i < nops; i++ {
		if chained && i > 0 && g.p(75) {
			c.Ops = append(c.Ops, g.dependentOp(c.Ops))
			continue
		}
		o, target := g.opWithTarget(infos)
		if chained && target != nil && target.kind == kLeaf && famOf(target.code) != fNone && o.Kind == opSet && g.p(60) {
			o.Value = hp(g.retypedValue(target)) // numeric overwritten by a numeric of another code
		}
		c.Ops = append(c.Ops, o)
	}
	if g.p(55) {
		c.Cond = g.cond(infos)
	}
	return c
}
