// C13 — structural patch matches its documented semantics.
//
// Monitor: generated (msgpack map body, op list, optional condition) triples are applied by
// the real msgpackpatch.ApplyWithCondition and — for a sampled subset — end to end through
// the gateway's PatchTreasures RPC. An independent document model (own strict msgpack decoder
// into {code, raw bytes, children}; own implementation of the eight ops and of the condition
// operators, written from docs/features/structural-msgpack-patch.md and the PatchOp /
// PatchCondition / PatchResult comments of proto/hydraide.proto) predicts, for every single op
// applied to the actual current document, the set of acceptable outcomes: error classes and/or
// result documents. The whole op list must then behave as the sequential application of its
// ops ("applied in order ... the patch result reflects the first failing op"), gated by the
// condition evaluated once on the input.
package c13

import (
	"bytes"
	"context"
	"errors"
	"fmt"
	"math"
	"os"
	"strings"
	"testing"

	"github.com/hydraide/hydraide/app/core/hydra/swamp/treasure/msgpackpatch"
	hydrapb "github.com/hydraide/hydraide/sdk/go/hydraidego/v3/hydraidepbgo"
	"github.com/vmihailenco/msgpack/v5"

	"verifharness/rig"
)

type finding struct{ sig, what string }

// classify maps the sentinel errors of msgpackpatch onto documented PatchResult status
// classes (the same correspondence the end-to-end clause then confirms on the wire).
func classify(err error) classSet {
	switch {
	case err == nil:
		return 0
	case errors.Is(err, msgpackpatch.ErrConditionNotMet):
		return cCNM
	case errors.Is(err, msgpackpatch.ErrTypeMismatch):
		return cTM
	case errors.Is(err, msgpackpatch.ErrPathInvalid), errors.Is(err, msgpackpatch.ErrInvalidOp):
		return cPI
	case errors.Is(err, msgpackpatch.ErrInvalidMsgpack), errors.Is(err, msgpackpatch.ErrNonStringKey):
		return cENC
	}
	return cINT
}

func statusOf(c classSet) hydrapb.PatchResult_StatusCode {
	switch c {
	case cCNM:
		return hydrapb.PatchResult_CONDITION_NOT_MET
	case cTM:
		return hydrapb.PatchResult_TYPE_MISMATCH
	case cPI:
		return hydrapb.PatchResult_PATH_INVALID
	case cENC:
		return hydrapb.PatchResult_ENCODING_NOT_SUPPORTED
	case cFNF:
		return hydrapb.PatchResult_FIELD_NOT_FOUND
	}
	return hydrapb.PatchResult_INTERNAL_ERROR
}

type realResult struct {
	out   []byte
	cls   classSet
	err   string
	panic string
	mut   bool // an input byte string was modified by the call
}

func toRealOps(ops []opT) []msgpackpatch.Op {
	var out []msgpackpatch.Op
	for _, o := range ops {
		out = append(out, msgpackpatch.Op{Kind: msgpackpatch.OpKind(o.Kind), Path: o.Path, Value: o.Value})
	}
	return out
}

// realApply calls the code under test with private copies of every input.
func realApply(body []byte, ops []opT, cond *condT) (res realResult) {
	b := append([]byte{}, body...)
	cp := make([]opT, len(ops))
	for i, o := range ops {
		cp[i] = o
		if o.Value != nil {
			cp[i].Value = append([]byte{}, o.Value...)
		}
	}
	var rc *msgpackpatch.Condition
	var th []byte
	if cond != nil {
		if cond.Threshold != nil {
			th = append([]byte{}, cond.Threshold...)
		}
		rc = &msgpackpatch.Condition{Path: cond.Path, Op: msgpackpatch.CondOp(cond.Op), Threshold: th}
	}
	defer func() {
		if p := recover(); p != nil {
			res.panic = fmt.Sprint(p)
		}
	}()
	out, err := msgpackpatch.ApplyWithCondition(b, toRealOps(cp), rc)
	res.cls = classify(err)
	if err != nil {
		res.err = err.Error()
	} else {
		res.out = append([]byte{}, out...)
	}
	if !bytes.Equal(b, body) {
		res.mut = true
	}
	for i := range cp {
		if !bytes.Equal(cp[i].Value, ops[i].Value) {
			res.mut = true
		}
	}
	if cond != nil && !bytes.Equal(th, cond.Threshold) {
		res.mut = true
	}
	return res
}

// vmihailencoParses re-reads b with the library every SDK reader uses.
func vmihailencoParses(b []byte) error {
	r := bytes.NewReader(b)
	dec := msgpack.NewDecoder(r)
	if err := dec.Skip(); err != nil {
		return err
	}
	if r.Len() != 0 {
		return fmt.Errorf("%d trailing bytes", r.Len())
	}
	return nil
}

func hx(b []byte) string {
	if len(b) > 96 {
		return fmt.Sprintf("%x…(%d bytes)", b[:96], len(b))
	}
	return fmt.Sprintf("%x", b)
}

type evalOut struct {
	findings   []finding
	full       realResult
	nontrivial bool
	seen       map[string][]string
	counts     map[string]int64
}

func (e *evalOut) violate(sig, what string) { e.findings = append(e.findings, finding{sig, what}) }
func (e *evalOut) see(set, v string)        { e.seen[set] = append(e.seen[set], v) }

// evalPure runs every pure-function clause on one case.
func evalPure(cs caseT) *evalOut {
	e := &evalOut{seen: map[string][]string{}, counts: map[string]int64{}}
	body := []byte(cs.Body)
	var ops []opT
	for _, o := range cs.Ops {
		ops = append(ops, o.op())
	}
	var cond *condT
	if cs.Cond != nil {
		c := cs.Cond.cond()
		cond = &c
	}
	e.full = realApply(body, ops, cond)
	if e.full.panic != "" {
		e.violate("panic:full", "ApplyWithCondition panicked: "+e.full.panic)
		return e
	}
	if e.full.mut {
		e.violate("input-mutated:full", "ApplyWithCondition modified one of its input byte strings")
	}

	bodyTree, derr := decode(body)
	if derr != nil {
		if errors.Is(derr, errNonStringKey) {
			// outside the documented domain (string-keyed maps): must be rejected
			e.see("situations", "body:nonstring-key")
			e.nontrivial = true
			if e.full.cls == 0 {
				e.violate("domain:nonstring-key-body:accepted", fmt.Sprintf("a body with a non-string map key was patched successfully: body=%s", hx(body)))
			}
			return e
		}
		panic("generator: malformed body: " + derr.Error())
	}
	countNodes(bodyTree, func(n *node) {
		e.see("body_codes", codeName(n.code))
	})

	// --- condition, evaluated once against the input ---
	condBlocks := false
	if cond != nil {
		co := modelCond(bodyTree, *cond)
		rc := realApply(body, nil, cond)
		cn := condName(cond.Op)
		e.see("cond_situations", cn+":"+co.sit)
		if ps := func() int { _, s := parsePath(cond.Path); return s }(); ps == pOK || ps == pOdd {
			e.nontrivial = true
		}
		e.counts["conditions"]++
		switch {
		case rc.panic != "":
			e.violate("panic:cond:"+cn, "condition evaluation panicked: "+rc.panic)
			return e
		case rc.cls == 0:
			if !co.proceed {
				e.violate("cond:"+cn+":"+co.sit+":got=HOLDS", fmt.Sprintf("condition %s %q threshold=%s holds on body %s; the documentation requires it not to (acceptable: %s)", cn, cond.Path, hx(cond.Threshold), hx(body), classList(co.errs)))
			}
			if t, err := decode(rc.out); err != nil {
				e.violate("wellformed:cond-only:strict-decoder-rejects-output", fmt.Sprintf("zero ops + condition returned a body my strict decoder rejects: %v", err))
			} else if r := match(bodyTree, t); r != "" {
				e.violate("cond:noop-clone:"+r, fmt.Sprintf("zero ops + holding condition changed the document (%s): in=%s out=%s", r, hx(body), hx(rc.out)))
			}
		default:
			condBlocks = true
			if co.errs&rc.cls == 0 {
				e.violate("cond:"+cn+":"+co.sit+":got="+className(rc.cls), fmt.Sprintf("condition %s %q threshold=%s on body %s gave %s (%s); acceptable: %s%s", cn, cond.Path, hx(cond.Threshold), hx(body), className(rc.cls), rc.err, classList(co.errs), map[bool]string{true: " or HOLDS", false: ""}[co.proceed]))
			}
		}
		if co.nan && (cond.Op == condGTE || cond.Op == condLTE) {
			// "NaN compares equal to nothing": >= can only hold where > holds
			strict := *cond
			strict.Op = map[int]int{condGTE: condGT, condLTE: condLT}[cond.Op]
			rs := realApply(body, nil, &strict)
			if (rc.cls == 0 || rc.cls == cCNM) && (rs.cls == 0 || rs.cls == cCNM) && rc.cls != rs.cls {
				e.violate("cond:"+cn+":"+co.sit+":differs-from-strict-operator", fmt.Sprintf("with a NaN operand %s gives %s but %s gives %s: only possible if NaN compared equal (path %q threshold=%s body=%s)", cn, className(rc.cls), condName(strict.Op), className(rs.cls), cond.Path, hx(cond.Threshold), hx(body)))
			}
		}
		if condBlocks {
			if e.full.cls != rc.cls {
				e.violate("compose:cond-outcome-differs", fmt.Sprintf("condition alone gives %s, with ops the patch gives %s", className(rc.cls), className(e.full.cls)))
			}
			// ops are still checked one by one below (they are independent of the gate)
		}
	}

	// --- ops, one at a time on the actual current document ---
	cur, tree := body, bodyTree
	chainFail, chainFailKind, chainBroken, skipCompose := classSet(0), "", false, false
	for i, op := range ops {
		kn := opName(op.Kind)
		mo := modelStep(tree, op)
		rs := realApply(cur, []opT{op}, nil)
		e.see("situations", kn+":"+mo.sit)
		e.see("op_kinds", kn)
		e.counts["op_steps"]++
		if _, ps := parsePath(op.Path); ps == pOK || ps == pOdd || ps == pMidAppend {
			e.nontrivial = true
		}
		if strings.Contains(mo.sit, "container-match") {
			skipCompose = true
		}
		desc := fmt.Sprintf("op #%d %s path=%q value=%s on document %s", i, kn, op.Path, hx(op.Value), hx(cur))
		if rs.panic != "" {
			e.violate("panic:"+kn, desc+" panicked: "+rs.panic)
			chainBroken = true
			break
		}
		if rs.mut {
			e.violate("input-mutated:"+kn, desc+" modified an input byte string")
		}
		e.see("outcomes", kn+":"+className(rs.cls))
		if rs.cls != 0 {
			if !mo.any && mo.errs&rs.cls == 0 {
				e.violate("step:"+kn+":"+mo.sit+":got="+className(rs.cls), fmt.Sprintf("%s gave %s (%s); acceptable: %s", desc, className(rs.cls), rs.err, acceptable(mo)))
				chainBroken = true
			}
			chainFail, chainFailKind = rs.cls, kn
			break
		}
		// success: the output must be a well-formed document ...
		nt, err := decode(rs.out)
		if err != nil {
			e.violate("wellformed:"+kn+":"+mo.sit+":strict-decoder-rejects-output", fmt.Sprintf("%s reported success but the body is not well-formed msgpack (%v): out=%s", desc, err, hx(rs.out)))
			chainBroken = true
			break
		}
		if err := vmihailencoParses(rs.out); err != nil {
			e.violate("wellformed:"+kn+":"+mo.sit+":vmihailenco-rejects-output", fmt.Sprintf("%s reported success but vmihailenco/msgpack cannot read the body (%v): out=%s", desc, err, hx(rs.out)))
			chainBroken = true
			break
		}
		// ... and the one the documentation describes
		if !mo.any {
			if len(mo.docs) == 0 {
				e.violate("step:"+kn+":"+mo.sit+":got=SUCCESS", fmt.Sprintf("%s succeeded (out=%s); acceptable: %s", desc, hx(rs.out), acceptable(mo)))
				chainBroken = true
				break
			}
			why := ""
			for _, d := range mo.docs {
				if why = match(d, nt); why == "" {
					break
				}
			}
			if why != "" {
				why = match(mo.docs[0], nt)
				e.violate("step:"+kn+":"+mo.sit+":wrong-document:"+why, fmt.Sprintf("%s gave a document that differs from the documented result (%s): out=%s", desc, why, hx(rs.out)))
				chainBroken = true
				break
			}
		}
		// informational: container headers / keys re-encoded although untouched
		cur, tree = rs.out, nt
	}

	// --- the whole patch = gate, then sequential application, all or nothing ---
	if chainBroken || condBlocks {
		return e
	}
	// was a container value written by an earlier op of the list? (ops that then navigate into
	// it are the one situation where list and sequence can legitimately be suspected to differ)
	ctx := "plain"
	for _, op := range ops {
		if len(op.Value) > 0 && (isMapCode(op.Value[0]) || isArrCode(op.Value[0])) && (op.Kind == opSet || op.Kind == opAppend || op.Kind == opPrepend || op.Kind == opMerge) {
			ctx = "after-container-value"
		}
	}
	// REMOVE_VAL whose Value is byte-equal to a container an earlier op of the same list wrote:
	// its own signature family (known finding C13-F9), so that every other list-vs-sequence
	// difference keeps the plain signatures
	for i, op := range ops {
		if op.Kind != opRemoveVal || len(op.Value) == 0 || !(isMapCode(op.Value[0]) || isArrCode(op.Value[0])) {
			continue
		}
		for _, prev := range ops[:i] {
			if (prev.Kind == opSet || prev.Kind == opAppend || prev.Kind == opPrepend) && bytes.Equal(prev.Value, op.Value) {
				ctx = "removeval-of-container-written-by-same-patch"
			}
		}
	}
	switch {
	case chainFail != 0:
		if e.full.cls != chainFail {
			e.violate("compose:"+ctx+":first-failing-op:"+chainFailKind+":single="+className(chainFail)+":list="+className(e.full.cls), fmt.Sprintf("applied alone after its predecessors the op fails with %s, the op list as a whole gives %s (%s)", className(chainFail), className(e.full.cls), e.full.err))
		}
	case e.full.cls != 0:
		e.violate("compose:"+ctx+":list-fails-although-every-op-succeeds:"+className(e.full.cls), fmt.Sprintf("every op succeeds when applied in sequence, the list fails with %s (%s)", className(e.full.cls), e.full.err))
	default:
		ft, err := decode(e.full.out)
		if err != nil {
			e.violate("wellformed:list:strict-decoder-rejects-output", fmt.Sprintf("op list reported success but the body is not well-formed (%v): %s", err, hx(e.full.out)))
		} else if err := vmihailencoParses(e.full.out); err != nil {
			e.violate("wellformed:list:vmihailenco-rejects-output", fmt.Sprintf("op list reported success but vmihailenco cannot read the body (%v)", err))
		} else if !skipCompose {
			if r := match(tree, ft); r != "" {
				e.violate("compose:"+ctx+":list-differs-from-sequential-application:"+r, fmt.Sprintf("op list result %s differs (%s) from applying the ops one after the other %s", hx(e.full.out), r, hx(cur)))
			}
			if !bytes.Equal(e.full.out, cur) {
				e.counts["list_vs_sequence_encoding_differs"]++
			}
		}
	}
	return e
}

func classList(c classSet) string {
	var s []string
	for _, x := range []classSet{cPI, cTM, cENC, cINT, cFNF, cCNM} {
		if c&x != 0 {
			s = append(s, className(x))
		}
	}
	if len(s) == 0 {
		return "(no error)"
	}
	return strings.Join(s, "|")
}

func acceptable(mo outs) string {
	s := classList(mo.errs)
	if len(mo.docs) > 0 {
		s += fmt.Sprintf(" or success with one of %d documented result(s)", len(mo.docs))
	}
	return s
}

// ---------------------------------------------------------------------------
// fixed cases: the examples of the documentation and the inputs the property text names

func mp(parts ...[]byte) []byte { return bytes.Join(parts, nil) }
func str(s string) []byte       { return encStrForm(s, 0) }

func fixedCases() []caseT {
	i32 := func(v int32) []byte { return []byte{0xd2, byte(v >> 24), byte(v >> 16), byte(v >> 8), byte(v)} }
	nan64, nan32 := encFloat64(math.NaN()), encFloat32(float32(math.NaN()))
	// {"Counter": int32 2, "ClaimedBy": "", "Tags": ["a","b"], "Score": float64 1.5, "Nan": NaN, "Small": int8 100, "M": {"x": 1}}
	body := mp([]byte{0x87}, str("Counter"), i32(2), str("ClaimedBy"), str(""), str("Tags"), []byte{0x92}, str("a"), str("b"),
		str("Score"), encFloat64(1.5), str("Nan"), nan64, str("Small"), []byte{0xd0, 100}, str("M"), []byte{0x81}, str("x"), []byte{0x01})
	op := func(k int, p string, v []byte) opJ { return opJ{Kind: k, Name: opName(k), Path: p, Value: hp(v)} }
	cd := func(o int, p string, th []byte) *condJ {
		return &condJ{Path: p, Op: o, Name: condName(o), Threshold: hp(th)}
	}
	var out []caseT
	add := func(c *condJ, ops ...opJ) { out = append(out, caseT{Body: body, Ops: ops, Cond: c}) }
	// documentation examples
	add(cd(condEQ, "ClaimedBy", str("")), op(opSet, "ClaimedBy", str("worker-A")), op(opInc, "Counter", i32(1)))
	add(cd(condLT, "Counter", i32(3)), op(opInc, "Counter", i32(1)), op(opAppend, "Events[]", str("boot")), op(opSet, "IsInQueue", []byte{0xc3}))
	add(cd(condLT, "Counter", i32(2)), op(opInc, "Counter", i32(1)))
	add(nil, op(opInc, "Small", []byte{0xd0, 1}), op(opPrepend, "Tags[]", str("z")), op(opRemoveVal, "Tags", str("a")), op(opRemoveAt, "Tags[0]", nil),
		op(opMerge, "M", mp([]byte{0x82}, str("x"), []byte{0x02}, str("y"), []byte{0x03})), op(opDelete, "Score", nil))
	// known finding C13-F9: a container appended and removed by value inside one patch
	kx := mp([]byte{0x81}, str("k"), []byte{0x02})
	add(nil, op(opAppend, "Tags[]", kx), op(opRemoveVal, "Tags", kx))
	add(nil, op(opSet, "Fresh", []byte{0x90}), op(opPrepend, "Fresh[]", kx), op(opRemoveVal, "Fresh", kx), op(opSet, "Fresh[0]", str("v")))
	add(nil, op(opInc, "Counter", encFloat64(1))) // cross-class delta
	add(nil, op(opRemoveAt, "Tags[5]", nil))
	add(nil, op(opSet, "A.B.C", []byte{0x01}), op(opSet, "ClaimedBy", str("x")), op(opMerge, "Tags", []byte{0x80}))
	// NaN: compares equal to nothing
	for _, th := range [][]byte{nan64, nan32} {
		for _, p := range []string{"Nan", "Score"} {
			for o := condEQ; o <= condLTE; o++ {
				add(cd(o, p, th), op(opSet, "Touched", []byte{0xc3}))
			}
		}
	}
	for o := condEQ; o <= condLTE; o++ {
		add(cd(o, "Nan", encFloat64(1.5)), op(opSet, "Touched", []byte{0xc3}))
	}
	// malformed values: a success must leave a well-formed body
	for _, bad := range [][]byte{{0xa5, 'a'}, {0x01, 0x02}, {0xc1}, {0x92, 0x01}, {0xd2, 0x00}} {
		add(nil, op(opSet, "Counter", bad))
		add(nil, op(opSet, "Fresh", bad))
		add(nil, op(opAppend, "Tags[]", bad))
		add(nil, op(opPrepend, "Tags[]", bad))
		add(nil, op(opAppend, "NewList[]", bad))
		add(nil, op(opInc, "Fresh", bad))
		add(nil, op(opInc, "Counter", bad))
		add(nil, op(opMerge, "M", bad))
		add(nil, op(opMerge, "M", mp([]byte{0x81}, str("k"), bad)))
		add(nil, op(opRemoveVal, "Tags", bad))
		add(nil, op(opSet, "Fresh", bad), op(opDelete, "Fresh", nil))
	}
	return out
}

// ---------------------------------------------------------------------------
// end to end through the gateway

const e2eSwamp = "c13/patch/e2e"

type e2eRig struct {
	r *rig.Rig
}

func (x *e2eRig) get(key string) (exists bool, val []byte, err error) {
	resp, err := x.r.GW.Get(context.Background(), &hydrapb.GetRequest{Swamps: []*hydrapb.GetSwamp{{IslandID: rig.Island(e2eSwamp), SwampName: e2eSwamp, Keys: []string{key}}}})
	if err != nil {
		return false, nil, err
	}
	for _, s := range resp.GetSwamps() {
		for _, t := range s.GetTreasures() {
			if t.GetKey() == key {
				return t.GetIsExist(), t.GetBytesVal(), nil
			}
		}
	}
	return false, nil, nil
}

func (x *e2eRig) set(key string, val []byte) error {
	_, err := x.r.GW.Set(context.Background(), &hydrapb.SetRequest{Swamps: []*hydrapb.SwampRequest{{IslandID: rig.Island(e2eSwamp), SwampName: e2eSwamp,
		CreateIfNotExist: true, Overwrite: true, KeyValues: []*hydrapb.KeyValuePair{{Key: key, BytesVal: val}}}}})
	return err
}

// evalE2E: status and stored body after PatchTreasures equal the pure-function result.
func (x *e2eRig) evalE2E(cs caseT, key string, pure realResult) (fs []finding, inconclusive string) {
	body := []byte(cs.Body)
	mode := cs.E2E
	prefix := []byte{0xc7, 0x00}
	stored := append(append([]byte{}, prefix...), body...)
	req := &hydrapb.PatchTreasuresRequest{IslandID: rig.Island(e2eSwamp), SwampName: e2eSwamp}
	tp := &hydrapb.TreasurePatch{Key: key}
	for _, o := range cs.Ops {
		po := &hydrapb.PatchOp{Op: hydrapb.PatchOp_Kind(o.Kind), Path: o.Path}
		if o.Value != nil {
			po.Value = append([]byte{}, (*o.Value)...)
		}
		tp.Ops = append(tp.Ops, po)
	}
	if cs.Cond != nil {
		pc := &hydrapb.PatchCondition{Path: cs.Cond.Path, Operator: hydrapb.PatchCondition_Op(cs.Cond.Op)}
		if cs.Cond.Threshold != nil {
			pc.Threshold = append([]byte{}, (*cs.Cond.Threshold)...)
		}
		tp.Condition = pc
	}
	req.Patches = []*hydrapb.TreasurePatch{tp}
	if mode == "create" {
		req.CreateIfNotExist = true
		req.InitialMsgpackOnCreate = append([]byte{}, body...)
	} else {
		if err := x.set(key, stored); err != nil {
			return nil, "Set failed: " + err.Error()
		}
	}
	resp, err := x.r.GW.PatchTreasures(context.Background(), req)
	if recs := rig.InstallSentinel().Drain("panic"); len(recs) > 0 {
		fs = append(fs, finding{"e2e:" + mode + ":panic", "PatchTreasures panicked: " + recs[0].Msg + " " + recs[0].Attrs})
		return fs, ""
	}
	if err != nil || resp == nil || len(resp.GetResults()) != 1 {
		return nil, fmt.Sprintf("PatchTreasures: err=%v resp=%v", err, resp)
	}
	got := resp.GetResults()[0].GetStatus()
	want := statusOf(pure.cls)
	if pure.cls == 0 {
		want = hydrapb.PatchResult_PATCHED
		if mode == "create" {
			want = hydrapb.PatchResult_CREATED
		}
	}
	if _, derr := decode(body); mode == "create" && errors.Is(derr, errNonStringKey) && got == hydrapb.PatchResult_TYPE_MISMATCH {
		// "InitialMsgpackOnCreate ... Must be a msgpack-encoded map; non-map seeds yield TYPE_MISMATCH"
		want = got
	}
	if got != want {
		fs = append(fs, finding{"e2e:" + mode + ":status:want=" + want.String() + ":got=" + got.String(), fmt.Sprintf("PatchTreasures status %s (%s), ApplyWithCondition gives %s (%s)", got, resp.GetResults()[0].GetError(), want, pure.err)})
		return fs, ""
	}
	exists, val, gerr := x.get(key)
	if gerr != nil {
		return fs, "Get failed: " + gerr.Error()
	}
	success := got == hydrapb.PatchResult_PATCHED || got == hydrapb.PatchResult_CREATED
	switch {
	case success:
		exp := append(append([]byte{}, prefix...), pure.out...)
		if !exists || !bytes.Equal(val, exp) {
			fs = append(fs, finding{"e2e:" + mode + ":stored-body-differs-from-pure-result", fmt.Sprintf("after %s the stored value is %s (exists=%v), ApplyWithCondition returned %s", got, hx(val), exists, hx(pure.out))})
		} else if len(val) >= 2 {
			if _, err := decode(val[2:]); err != nil {
				fs = append(fs, finding{"e2e:" + mode + ":success-stored-body-malformed", fmt.Sprintf("status %s but the stored body is not well-formed msgpack (%v): %s", got, err, hx(val[2:]))})
			}
		}
	case mode == "create":
		if exists {
			fs = append(fs, finding{"e2e:create:key-exists-after-failure:" + got.String(), fmt.Sprintf("status %s on a missing key with CreateIfNotExist, yet the key exists afterwards with value %s", got, hx(val))})
		}
	default:
		if !exists || !bytes.Equal(val, stored) {
			fs = append(fs, finding{"e2e:existing:body-changed-on-failure:" + got.String(), fmt.Sprintf("status %s but the stored value changed from %s to %s (exists=%v)", got, hx(stored), hx(val), exists)})
		}
	}
	return fs, ""
}

// ---------------------------------------------------------------------------

func TestCheck(t *testing.T) {
	c := rig.NewCheck(t, "C13", "exploration")
	defer c.Finish()
	c.Rule = "generated (string-keyed msgpack map body with nested maps/arrays and every leaf code incl. non-minimal encodings and NaN/±Inf; 0-4 ops over the eight kinds with existing/missing/through-array/out-of-range/wrong-kind/malformed/odd paths and well-formed, absent or malformed values; optional condition with every operator and threshold kind) triples plus fixed documentation examples; each op is applied alone to the actual current document and compared with the independent model, then the list and the condition gate are checked for composition; a sampled subset also runs through gateway.PatchTreasures (existing key and CreateIfNotExist+seed). non-trivial = at least one op or condition whose path is syntactically acceptable, so that op/condition semantics (not just path rejection) decide; distinct = distinct case JSON"
	c.Assumptions = []string{
		"byte identity is demanded of untouched LEAVES; container headers and map keys may be re-encoded (e.g. map16 -> fixmap) as long as children, key set and the relative order of untouched keys are preserved; position of new or replaced map entries is free",
		"op Value / Threshold that is not exactly one well-formed msgpack value: any error class accepted; success tolerated only if the output is well-formed and everything outside the op's target equals the documented result",
		"missing required Value, unknown op kind / operator: any error class",
		"path syntax outside the documented grammar (negative, signed or zero-padded indices, names with characters other than [A-Za-z0-9_]): PATH_INVALID or the literal reading; bracket without a field name: PATH_INVALID or TYPE_MISMATCH",
		"traversal through a node of the wrong kind (field of a leaf/array, index of a map/leaf): TYPE_MISMATCH or PATH_INVALID; for DELETE / REMOVE_VAL also a no-op ('missing target')",
		"SET / INC / MERGE whose final segment is an existing array index: applied (SDK docs show Tags[0]) or PATH_INVALID (proto: 'final segment must be a field name'); DELETE of an out-of-range index: no-op or PATH_INVALID; REMOVE_AT / REMOVE_VAL on a missing field: no-op or PATH_INVALID",
		"auto-creation of missing intermediate maps is documented for SET only: for INC / APPEND / PREPEND / MERGE creation and PATH_INVALID are accepted; MERGE into a missing field: creates the map, or PATH_INVALID / TYPE_MISMATCH",
		"INC: integer overflow of the target's type: any error or any value in the same type code; fixint target (the code is the value): any integer encoding of the exact sum; int vs uint delta, or a positive fixint on one side (class not documented): TYPE_MISMATCH or the exact sum; float32 target: float32 or float64 arithmetic",
		"REMOVE_VAL whose Value equals the bytes of a container element: removed or not (byte identity of containers is not a documented notion)",
		"conditions: EXISTS/NOT_EXISTS on a container either way ('leaf field'); comparator on a missing field: CONDITION_NOT_MET or any error (NOT_EQUAL may also hold); int-vs-uint / fixint cross-class: numeric result or any error; float vs integer, nil/ext ordering, malformed threshold: anything; string/bin/bool ordering: lexicographic / false<true or any error; same string content in another length form: equal or not; different non-numeric types: CONDITION_NOT_MET or any error (NOT_EQUAL may hold)",
		"NaN operand: EQUAL must not hold, NOT_EQUAL must not report 'not met', >= / <= must agree with > / < (since equality is impossible); rejecting NaN with an error is accepted",
		"bodies with a non-string map key are outside the documented domain: only rejection is checked; duplicate map keys are not generated",
		"sentinel-error -> status class correspondence (ErrInvalidOp = PATH_INVALID, ErrInvalidMsgpack/ErrNonStringKey = ENCODING_NOT_SUPPORTED) is confirmed end to end on the sampled subset only",
	}
	c.MinNontrivial = 50

	var cases []caseT
	if p := c.ReplayPath(); p != "" {
		var w struct {
			Witness struct {
				Case    caseT         `json:"case"`
				Hostile *hostileProbe `json:"hostile_probe"`
			} `json:"witness"`
		}
		rig.ReadJSON(p, &w)
		if w.Witness.Hostile != nil {
			runHostileProbe(c) // the probe matrix is fixed: the replay runs all of it again
			c.MinNontrivial = 0
			return
		}
		cases = append(cases, w.Witness.Case)
	} else {
		runHostileProbe(c)
		cases = append(fixedCases(), chainCases()...)
		c.Extra("fixed_chain_cases", len(cases))
		for i := range cases {
			if i%97 == 0 {
				cases[i].E2E = []string{"existing", "create"}[(i/97)%2]
			}
		}
		for i := range cases[:0] {
			if i%4 == 0 {
				cases[i].E2E = []string{"existing", "create"}[(i/4)%2]
			}
		}
		n := c.N(3000, 100000)
		stride := c.N(10, 25)
		for i := 0; i < n; i++ {
			cs := genCase(c.Rand(i))
			if i%stride == 0 {
				cs.E2E = []string{"existing", "create"}[(i/stride)%2]
			}
			cases = append(cases, cs)
		}
	}

	type pending struct {
		cs   caseT
		pure realResult
	}
	var e2e []pending
	for _, cs := range cases {
		e := evalPure(cs)
		c.Case(rig.Dump(cs), e.nontrivial)
		c.Sample(cs)
		for set, vs := range e.seen {
			for _, v := range vs {
				c.Seen(set, v)
			}
		}
		for k, n := range e.counts {
			c.Count(k, n)
		}
		for _, f := range e.findings {
			c.Seen("signatures_incl_known", f.sig)
			if flt := os.Getenv("C13_SIG_FILTER"); flt != "" && !strings.Contains(f.sig, flt) {
				continue // debugging aid: look at one signature family past the 60-witness cap
			}
			c.Violate(f.sig, f.what, map[string]any{"case": cs})
		}
		if cs.E2E != "" && e.full.panic == "" {
			e2e = append(e2e, pending{cs, e.full})
		}
	}

	if len(e2e) > 0 {
		root := rig.TempRoot("c13")
		defer rig.RemoveAll(root)
		r := rig.New(rig.Options{Root: root})
		x := &e2eRig{r: r}
		r.Register("c13/patch/*", false, 3600, 1)
		if err := x.set("anchor", []byte{0xc7, 0x00, 0x80}); err != nil {
			c.Inconclusive("e2e: cannot create the swamp: " + err.Error())
		} else {
			for i, p := range e2e {
				fs, inc := x.evalE2E(p.cs, fmt.Sprintf("k%06d", i), p.pure)
				c.Count("e2e_cases", 1)
				c.Seen("e2e_outcomes", p.cs.E2E+":"+className(p.pure.cls))
				if inc != "" {
					c.Inconclusive("e2e: " + inc)
				}
				for _, f := range fs {
					c.Seen("signatures_incl_known", f.sig)
					c.Violate(f.sig, f.what, map[string]any{"case": p.cs})
				}
			}
		}
		r.Stop()
	}
}
