package c13

// Strict, independent MessagePack reader/writer used by the C13 document model.
// Written from the MessagePack specification; it shares no code with the
// implementation under test (which walks documents with vmihailenco/msgpack).
//
// A document is decoded into a tree of {code, raw bytes, children}. Leaves keep
// the exact bytes of their encoding so that "untouched values keep their exact
// bytes" can be decided.

import (
	"encoding/binary"
	"errors"
	"fmt"
	"math"
	"math/big"
)

type kind uint8

const (
	kLeaf kind = iota
	kMap
	kArr
)

type node struct {
	kind kind
	code byte   // leading msgpack code (decoded nodes)
	raw  []byte // exact encoding of the whole value (decoded nodes only)
	keys []string
	kids []*node

	// model-only fields (never set on decoded nodes)
	moved []bool   // map: entry position is not pinned (new or replaced entry)
	wild  bool     // matches any single well-formed value
	flex  *flexNum // numeric leaf whose exact encoding is not fully determined
}

var (
	errMalformed    = errors.New("malformed msgpack")
	errNonStringKey = errors.New("map key is not a string")
)

const maxDepth = 200

// decode parses exactly one value occupying all of b.
func decode(b []byte) (*node, error) {
	if len(b) == 0 {
		return nil, fmt.Errorf("%w: empty", errMalformed)
	}
	n, end, err := parseAt(b, 0, 0)
	if err != nil {
		return nil, err
	}
	if end != len(b) {
		return nil, fmt.Errorf("%w: %d trailing bytes", errMalformed, len(b)-end)
	}
	return n, nil
}

func need(b []byte, off, n int) error {
	if n < 0 || off+n > len(b) || off+n < off {
		return fmt.Errorf("%w: truncated at %d (+%d of %d)", errMalformed, off, n, len(b))
	}
	return nil
}

func beUint(b []byte) uint64 {
	var v uint64
	for _, x := range b {
		v = v<<8 | uint64(x)
	}
	return v
}

// lenHeader returns (header length, announced length) for a code at off that is followed by a
// width-byte big-endian length.
func lenHeader(b []byte, off int, width int) (int, int, error) {
	if err := need(b, off+1, width); err != nil {
		return 0, 0, err
	}
	n := beUint(b[off+1 : off+1+width])
	if n > uint64(len(b)) {
		return 0, 0, fmt.Errorf("%w: length %d exceeds input", errMalformed, n)
	}
	return 1 + width, int(n), nil
}

func parseAt(b []byte, off, depth int) (*node, int, error) {
	if depth > maxDepth {
		return nil, 0, fmt.Errorf("%w: too deep", errMalformed)
	}
	if err := need(b, off, 1); err != nil {
		return nil, 0, err
	}
	c := b[off]
	leaf := func(total int) (*node, int, error) {
		if err := need(b, off, total); err != nil {
			return nil, 0, err
		}
		return &node{kind: kLeaf, code: c, raw: b[off : off+total]}, off + total, nil
	}
	switch {
	case c <= 0x7f, c >= 0xe0:
		return leaf(1)
	case c >= 0x80 && c <= 0x8f:
		return parseMap(b, off, 1, int(c&0x0f), depth)
	case c >= 0x90 && c <= 0x9f:
		return parseArr(b, off, 1, int(c&0x0f), depth)
	case c >= 0xa0 && c <= 0xbf:
		return leaf(1 + int(c&0x1f))
	}
	switch c {
	case 0xc0, 0xc2, 0xc3:
		return leaf(1)
	case 0xc1:
		return nil, 0, fmt.Errorf("%w: reserved code 0xc1 at %d", errMalformed, off)
	case 0xc4, 0xd9:
		h, n, err := lenHeader(b, off, 1)
		if err != nil {
			return nil, 0, err
		}
		return leaf(h + n)
	case 0xc5, 0xda:
		h, n, err := lenHeader(b, off, 2)
		if err != nil {
			return nil, 0, err
		}
		return leaf(h + n)
	case 0xc6, 0xdb:
		h, n, err := lenHeader(b, off, 4)
		if err != nil {
			return nil, 0, err
		}
		return leaf(h + n)
	case 0xc7:
		h, n, err := lenHeader(b, off, 1)
		if err != nil {
			return nil, 0, err
		}
		return leaf(h + 1 + n)
	case 0xc8:
		h, n, err := lenHeader(b, off, 2)
		if err != nil {
			return nil, 0, err
		}
		return leaf(h + 1 + n)
	case 0xc9:
		h, n, err := lenHeader(b, off, 4)
		if err != nil {
			return nil, 0, err
		}
		return leaf(h + 1 + n)
	case 0xca, 0xce, 0xd2:
		return leaf(5)
	case 0xcb, 0xcf, 0xd3:
		return leaf(9)
	case 0xcc, 0xd0:
		return leaf(2)
	case 0xcd, 0xd1:
		return leaf(3)
	case 0xd4:
		return leaf(3)
	case 0xd5:
		return leaf(4)
	case 0xd6:
		return leaf(6)
	case 0xd7:
		return leaf(10)
	case 0xd8:
		return leaf(18)
	case 0xdc:
		h, n, err := lenHeader(b, off, 2)
		if err != nil {
			return nil, 0, err
		}
		return parseArr(b, off, h, n, depth)
	case 0xdd:
		h, n, err := lenHeader(b, off, 4)
		if err != nil {
			return nil, 0, err
		}
		return parseArr(b, off, h, n, depth)
	case 0xde:
		h, n, err := lenHeader(b, off, 2)
		if err != nil {
			return nil, 0, err
		}
		return parseMap(b, off, h, n, depth)
	case 0xdf:
		h, n, err := lenHeader(b, off, 4)
		if err != nil {
			return nil, 0, err
		}
		return parseMap(b, off, h, n, depth)
	}
	return nil, 0, fmt.Errorf("%w: unknown code %#x", errMalformed, c)
}

func parseArr(b []byte, off, hdr, n, depth int) (*node, int, error) {
	nd := &node{kind: kArr, code: b[off]}
	p := off + hdr
	for i := 0; i < n; i++ {
		k, e, err := parseAt(b, p, depth+1)
		if err != nil {
			return nil, 0, err
		}
		nd.kids = append(nd.kids, k)
		p = e
	}
	nd.raw = b[off:p]
	return nd, p, nil
}

func parseMap(b []byte, off, hdr, n, depth int) (*node, int, error) {
	nd := &node{kind: kMap, code: b[off]}
	p := off + hdr
	var nonStr bool
	for i := 0; i < n; i++ {
		k, e, err := parseAt(b, p, depth+1)
		if err != nil {
			return nil, 0, err
		}
		if k.kind != kLeaf || !isStrCode(k.code) {
			nonStr = true
			nd.keys = append(nd.keys, "\x00nonstring:"+string(k.raw))
		} else {
			nd.keys = append(nd.keys, string(strPayload(k.raw)))
		}
		v, e2, err := parseAt(b, e, depth+1)
		if err != nil {
			return nil, 0, err
		}
		nd.kids = append(nd.kids, v)
		p = e2
	}
	nd.raw = b[off:p]
	if nonStr {
		return nil, 0, errNonStringKey
	}
	return nd, p, nil
}

func isStrCode(c byte) bool { return (c >= 0xa0 && c <= 0xbf) || c == 0xd9 || c == 0xda || c == 0xdb }
func isBinCode(c byte) bool { return c == 0xc4 || c == 0xc5 || c == 0xc6 }
func isExtCode(c byte) bool { return (c >= 0xc7 && c <= 0xc9) || (c >= 0xd4 && c <= 0xd8) }
func isMapCode(c byte) bool { return (c >= 0x80 && c <= 0x8f) || c == 0xde || c == 0xdf }
func isArrCode(c byte) bool { return (c >= 0x90 && c <= 0x9f) || c == 0xdc || c == 0xdd }

// strPayload returns the payload of a str or bin leaf.
func strPayload(raw []byte) []byte {
	c := raw[0]
	switch {
	case c >= 0xa0 && c <= 0xbf:
		return raw[1:]
	case c == 0xd9 || c == 0xc4:
		return raw[2:]
	case c == 0xda || c == 0xc5:
		return raw[3:]
	case c == 0xdb || c == 0xc6:
		return raw[5:]
	}
	return nil
}

// numeric families
type fam uint8

const (
	fNone   fam = iota
	fPosFix     // positive fixint: documentation does not say whether it is "int" or "uint"
	fNegFix     // negative fixint: signed
	fInt        // int8..int64
	fUint       // uint8..uint64
	fFloat      // float32 / float64
)

func famOf(c byte) fam {
	switch {
	case c <= 0x7f:
		return fPosFix
	case c >= 0xe0:
		return fNegFix
	case c >= 0xd0 && c <= 0xd3:
		return fInt
	case c >= 0xcc && c <= 0xcf:
		return fUint
	case c == 0xca || c == 0xcb:
		return fFloat
	}
	return fNone
}

func isIntFam(f fam) bool { return f == fPosFix || f == fNegFix || f == fInt || f == fUint }

// intValue returns the integer value of an integer leaf.
func intValue(raw []byte) *big.Int {
	c := raw[0]
	switch famOf(c) {
	case fPosFix:
		return big.NewInt(int64(c))
	case fNegFix:
		return big.NewInt(int64(int8(c)))
	case fUint:
		return new(big.Int).SetUint64(beUint(raw[1:]))
	case fInt:
		u := beUint(raw[1:])
		switch len(raw) - 1 {
		case 1:
			return big.NewInt(int64(int8(u)))
		case 2:
			return big.NewInt(int64(int16(u)))
		case 4:
			return big.NewInt(int64(int32(u)))
		default:
			return big.NewInt(int64(u))
		}
	}
	return nil
}

func floatValue(raw []byte) float64 {
	if raw[0] == 0xca {
		return float64(math.Float32frombits(uint32(beUint(raw[1:]))))
	}
	return math.Float64frombits(beUint(raw[1:]))
}

// intRange returns the representable range of an explicit-width integer code.
func intRange(c byte) (lo, hi *big.Int) {
	switch c {
	case 0xcc:
		return big.NewInt(0), big.NewInt(math.MaxUint8)
	case 0xcd:
		return big.NewInt(0), big.NewInt(math.MaxUint16)
	case 0xce:
		return big.NewInt(0), big.NewInt(math.MaxUint32)
	case 0xcf:
		return big.NewInt(0), new(big.Int).SetUint64(math.MaxUint64)
	case 0xd0:
		return big.NewInt(math.MinInt8), big.NewInt(math.MaxInt8)
	case 0xd1:
		return big.NewInt(math.MinInt16), big.NewInt(math.MaxInt16)
	case 0xd2:
		return big.NewInt(math.MinInt32), big.NewInt(math.MaxInt32)
	case 0xd3:
		return big.NewInt(math.MinInt64), big.NewInt(math.MaxInt64)
	}
	return nil, nil
}

func widthOf(c byte) int {
	switch c {
	case 0xcc, 0xd0:
		return 1
	case 0xcd, 0xd1:
		return 2
	case 0xce, 0xd2, 0xca:
		return 4
	case 0xcf, 0xd3, 0xcb:
		return 8
	}
	return 0
}

// encIntCode encodes v (which must fit) with the explicit-width code c.
func encIntCode(c byte, v *big.Int) []byte {
	w := widthOf(c)
	var u uint64
	if v.Sign() >= 0 {
		u = v.Uint64()
	} else {
		u = uint64(v.Int64())
	}
	out := make([]byte, 1+w)
	out[0] = c
	for i := 0; i < w; i++ {
		out[w-i] = byte(u >> (8 * i))
	}
	return out
}

func encFloat32(f float32) []byte {
	out := make([]byte, 5)
	out[0] = 0xca
	binary.BigEndian.PutUint32(out[1:], math.Float32bits(f))
	return out
}

func encFloat64(f float64) []byte {
	out := make([]byte, 9)
	out[0] = 0xcb
	binary.BigEndian.PutUint64(out[1:], math.Float64bits(f))
	return out
}

// encStrForm encodes s as str with the given form: 0 minimal, 1 str8, 2 str16, 3 str32.
func encStrForm(s string, form int) []byte {
	n := len(s)
	if form == 0 {
		switch {
		case n < 32:
			return append([]byte{0xa0 | byte(n)}, s...)
		case n < 256:
			form = 1
		case n < 65536:
			form = 2
		default:
			form = 3
		}
	}
	switch form {
	case 1:
		return append([]byte{0xd9, byte(n)}, s...)
	case 2:
		return append([]byte{0xda, byte(n >> 8), byte(n)}, s...)
	}
	return append([]byte{0xdb, byte(n >> 24), byte(n >> 16), byte(n >> 8), byte(n)}, s...)
}

// encBinForm: 1 bin8, 2 bin16, 3 bin32.
func encBinForm(p []byte, form int) []byte {
	n := len(p)
	switch form {
	case 1:
		return append([]byte{0xc4, byte(n)}, p...)
	case 2:
		return append([]byte{0xc5, byte(n >> 8), byte(n)}, p...)
	}
	return append([]byte{0xc6, byte(n >> 24), byte(n >> 16), byte(n >> 8), byte(n)}, p...)
}

// encContainerHeader: isMap, count n, form 0 minimal, 2 = 16-bit, 3 = 32-bit.
func encContainerHeader(isMap bool, n, form int) []byte {
	fix, c16, c32 := byte(0x90), byte(0xdc), byte(0xdd)
	if isMap {
		fix, c16, c32 = 0x80, 0xde, 0xdf
	}
	if form == 0 {
		switch {
		case n < 16:
			return []byte{fix | byte(n)}
		case n < 65536:
			form = 2
		default:
			form = 3
		}
	}
	if form == 2 {
		return []byte{c16, byte(n >> 8), byte(n)}
	}
	return []byte{c32, byte(n >> 24), byte(n >> 16), byte(n >> 8), byte(n)}
}

// codeName gives a stable human name for a leading code (used in signatures).
func codeName(c byte) string {
	switch {
	case c <= 0x7f:
		return "posfixint"
	case c >= 0xe0:
		return "negfixint"
	case c >= 0x80 && c <= 0x8f:
		return "fixmap"
	case c >= 0x90 && c <= 0x9f:
		return "fixarray"
	case c >= 0xa0 && c <= 0xbf:
		return "fixstr"
	}
	names := map[byte]string{0xc0: "nil", 0xc1: "reserved", 0xc2: "false", 0xc3: "true", 0xc4: "bin8", 0xc5: "bin16", 0xc6: "bin32",
		0xc7: "ext8", 0xc8: "ext16", 0xc9: "ext32", 0xca: "float32", 0xcb: "float64", 0xcc: "uint8", 0xcd: "uint16", 0xce: "uint32",
		0xcf: "uint64", 0xd0: "int8", 0xd1: "int16", 0xd2: "int32", 0xd3: "int64", 0xd4: "fixext1", 0xd5: "fixext2", 0xd6: "fixext4",
		0xd7: "fixext8", 0xd8: "fixext16", 0xd9: "str8", 0xda: "str16", 0xdb: "str32", 0xdc: "array16", 0xdd: "array32", 0xde: "map16", 0xdf: "map32"}
	return names[c]
}

// typeClass is the coarse value type used by the condition model.
func typeClass(c byte) string {
	switch {
	case famOf(c) == fFloat:
		return "float"
	case famOf(c) == fPosFix:
		return "posfix"
	case famOf(c) == fNegFix || famOf(c) == fInt:
		return "int"
	case famOf(c) == fUint:
		return "uint"
	case isStrCode(c):
		return "str"
	case isBinCode(c):
		return "bin"
	case c == 0xc2 || c == 0xc3:
		return "bool"
	case c == 0xc0:
		return "nil"
	case isExtCode(c):
		return "ext"
	case isMapCode(c):
		return "map"
	case isArrCode(c):
		return "array"
	}
	return "other"
}

// ---------------------------------------------------------------------------
// flexible numeric expectations

type flexNum struct {
	codes    map[byte]bool // allowed explicit codes (nil = none)
	fixOK    bool          // a fixint encoding is allowed
	anyValue bool          // value unconstrained
	ival     *big.Int      // expected integer value
	fvals    []float64     // accepted float values (any NaN accepted when one of them is NaN)
}

func (f *flexNum) match(a *node) string {
	if a.kind != kLeaf {
		return "kind"
	}
	c := a.code
	fa := famOf(c)
	if fa == fNone {
		return "inc-not-numeric"
	}
	if fa == fPosFix || fa == fNegFix {
		if !f.fixOK {
			return "inc-type-code"
		}
	} else if !f.codes[c] {
		return "inc-type-code"
	}
	if f.anyValue {
		return ""
	}
	if fa == fFloat {
		v := floatValue(a.raw)
		for _, w := range f.fvals {
			if (math.IsNaN(v) && math.IsNaN(w)) || (v == w && math.Signbit(v) == math.Signbit(w)) {
				return ""
			}
		}
		return "inc-value"
	}
	if f.ival == nil || intValue(a.raw).Cmp(f.ival) != 0 {
		return "inc-value"
	}
	return ""
}

// ---------------------------------------------------------------------------
// tree helpers

func clone(n *node) *node {
	if n == nil {
		return nil
	}
	c := *n
	if n.keys != nil {
		c.keys = append([]string(nil), n.keys...)
	}
	if n.moved != nil {
		c.moved = append([]bool(nil), n.moved...)
	}
	if n.kids != nil {
		c.kids = make([]*node, len(n.kids))
		for i, k := range n.kids {
			c.kids[i] = clone(k)
		}
	}
	return &c
}

func (n *node) find(key string) int {
	for i, k := range n.keys {
		if k == key {
			return i
		}
	}
	return -1
}

func (n *node) isMoved(i int) bool { return i < len(n.moved) && n.moved[i] }

func (n *node) setMoved(i int) {
	for len(n.moved) < len(n.keys) {
		n.moved = append(n.moved, false)
	}
	n.moved[i] = true
}

func (n *node) addEntry(key string, v *node) {
	n.keys = append(n.keys, key)
	n.kids = append(n.kids, v)
	n.setMoved(len(n.keys) - 1)
}

func (n *node) removeAt(i int) {
	if n.kind == kMap {
		n.keys = append(n.keys[:i:i], n.keys[i+1:]...)
		if len(n.moved) > i {
			for len(n.moved) < len(n.kids) {
				n.moved = append(n.moved, false)
			}
			n.moved = append(n.moved[:i:i], n.moved[i+1:]...)
		}
	}
	n.kids = append(n.kids[:i:i], n.kids[i+1:]...)
}

func hasDupKeys(n *node) bool {
	seen := map[string]bool{}
	for _, k := range n.keys {
		if seen[k] {
			return true
		}
		seen[k] = true
	}
	return false
}

// match compares an expected (model) tree with an actual (decoded) tree.
// Leaves must be byte-identical; containers must have the same children (maps:
// same key set, pinned entries in the same relative order; arrays: same order).
// The encoding chosen for container headers and map keys is not compared.
// Returns "" or a short stable reason.
func match(e, a *node) string {
	if e.wild {
		return ""
	}
	if e.flex != nil {
		return e.flex.match(a)
	}
	if e.kind != a.kind {
		return "kind"
	}
	switch e.kind {
	case kLeaf:
		if string(e.raw) != string(a.raw) {
			return "leaf-bytes"
		}
	case kArr:
		if len(e.kids) != len(a.kids) {
			return "array-len"
		}
		for i := range e.kids {
			if r := match(e.kids[i], a.kids[i]); r != "" {
				return r
			}
		}
	case kMap:
		if hasDupKeys(a) {
			return "dup-key"
		}
		for _, k := range a.keys {
			if e.find(k) < 0 {
				return "extra-key"
			}
		}
		last := -1
		for i, k := range e.keys {
			j := a.find(k)
			if j < 0 {
				return "missing-key"
			}
			if r := match(e.kids[i], a.kids[j]); r != "" {
				return r
			}
			if !e.isMoved(i) {
				if j < last {
					return "key-order"
				}
				last = j
			}
		}
	}
	return ""
}

// countNodes calls f on every node of the tree.
func countNodes(n *node, f func(*node)) {
	f(n)
	for _, k := range n.kids {
		countNodes(k, f)
	}
}
