// C21 — swamp settings resolve deterministically from registered patterns.
//
// Monitor, part 1 (pure): generated sets of overlapping patterns (exact s/r/w, s/r/*, s/*/w,
// s/*/*) are registered on fresh settings objects in every permutation, plus histories with
// re-registration and deregistration; after every history the object is asked 64 times per
// name, then a new object is created on the same directory (reload from settings.json) and asked
// again. Every answer is compared with a small documented-semantics model (match = sanctuary
// equal, realm/swamp equal or "*"; most specific = fewest wildcards) and with every other answer
// for the same (set, name).
// Part 2 (end to end): the same kind of set is registered through the gateway of an in-process
// engine inside a virtual-time bubble; a swamp is written, the presence of its .hyd file is
// observed, the swamp is destroyed, and this is repeated across summons and a restart: the
// file must always appear or never appear.
package c21

import (
	"context"
	"fmt"
	"os"
	"path/filepath"
	"sort"
	"strings"
	"testing"
	"testing/synctest"
	"time"

	"github.com/hydraide/hydraide/app/core/settings"
	"github.com/hydraide/hydraide/app/core/settings/setting"
	"github.com/hydraide/hydraide/app/name"
	hydrapb "github.com/hydraide/hydraide/sdk/go/hydraidego/v3/hydraidepbgo"

	"verifharness/rig"
)

const lookupsPerName = 64

type pat struct {
	P     string `json:"p"`
	InMem bool   `json:"in_mem"`
	Idle  int64  `json:"idle"`
	Write int64  `json:"write,omitempty"` // persistent only
}

type step struct {
	Op  string `json:"op"` // reg | dereg
	Pat pat    `json:"pat"`
}

type history struct {
	Kind  string `json:"kind"` // perm | rereg | dereg
	Steps []step `json:"steps"`
}

type setCase struct {
	Pats  []pat     `json:"pats"` // the final set of registered patterns
	Names []string  `json:"names"`
	Extra []history `json:"extra_histories"` // beyond the permutations of Pats
}

// ---------------------------------------------------------------------------
// model (docs: proto RegisterSwamp/DeRegisterSwamp, SDK RegisterSwampRequest.SwampPattern:
// "You can use wildcards (*) for dynamic parts")

func parts(p string) [3]string {
	x := strings.SplitN(p, "/", 3)
	return [3]string{x[0], x[1], x[2]}
}

func matches(pattern, swamp string) bool {
	p, n := parts(pattern), parts(swamp)
	return p[0] == n[0] && (p[1] == "*" || p[1] == n[1]) && (p[2] == "*" || p[2] == n[2])
}

func wildcards(pattern string) int {
	p := parts(pattern)
	w := 0
	if p[1] == "*" {
		w++
	}
	if p[2] == "*" {
		w++
	}
	return w
}

// result is what one lookup observed: which pattern's settings applied, and the settings the
// statement names (in-memory or persistent, idle timeout, write interval).
type result struct {
	Pattern string
	Type    string
	Idle    time.Duration
	Write   time.Duration // persistent only, 0 for in-memory
}

func (r result) String() string {
	return fmt.Sprintf("{pattern=%s %s idle=%s write=%s}", r.Pattern, r.Type, r.Idle, r.Write)
}

func want(p pat) result {
	r := result{Pattern: p.P, Type: string(setting.PermanentSwamp), Idle: time.Duration(p.Idle) * time.Second, Write: time.Duration(p.Write) * time.Second}
	if p.InMem {
		r.Type = string(setting.InMemorySwamp)
		r.Write = 0
	}
	return r
}

func lookup(st settings.Settings, swamp string) (r result, pc string) {
	defer func() {
		if p := recover(); p != nil {
			pc = fmt.Sprint(p)
		}
	}()
	s := st.GetBySwampName(name.Load(swamp))
	r = result{Pattern: s.GetPattern().Get(), Type: string(s.GetSwampType()), Idle: s.GetCloseAfterIdle()}
	if s.GetSwampType() == setting.PermanentSwamp {
		r.Write = s.GetWriteInterval()
	}
	return r, ""
}

// ---------------------------------------------------------------------------
// generation

var idles = []int64{1, 2, 5, 30, 3600}
var writes = []int64{1, 2, 10, 60}

func randPat(r interface{ IntN(int) int }, p string) pat {
	x := pat{P: p, InMem: r.IntN(2) == 0, Idle: idles[r.IntN(len(idles))]}
	if !x.InMem {
		x.Write = writes[r.IntN(len(writes))]
	}
	return x
}

func genSet(c *rig.Check, idx int) setCase {
	r := c.Rand(idx)
	// target name and its four generalisations
	s, rl, w := "s"+fmt.Sprint(1+r.IntN(2)), "r"+fmt.Sprint(1+r.IntN(2)), "w"+fmt.Sprint(1+r.IntN(2))
	cands := []string{s + "/" + rl + "/" + w, s + "/" + rl + "/*", s + "/*/" + w, s + "/*/*"}
	// neighbours: other realm / swamp / sanctuary
	rl2, w2, s2 := "r3", "w3", "s3"
	more := []string{s + "/" + rl2 + "/*", s + "/" + rl2 + "/" + w, s + "/" + rl + "/" + w2, s + "/*/" + w2, s2 + "/*/*", s2 + "/" + rl + "/" + w, s2 + "/" + rl + "/*"}
	k := 2 + r.IntN(4) // 2..5 patterns
	chosen := map[string]bool{}
	var ps []pat
	// at least two overlapping generalisations of the target
	for len(ps) < 2 {
		p := cands[r.IntN(len(cands))]
		if !chosen[p] {
			chosen[p] = true
			ps = append(ps, randPat(r, p))
		}
	}
	for len(ps) < k {
		var p string
		if r.IntN(3) > 0 {
			p = cands[r.IntN(len(cands))]
		} else {
			p = more[r.IntN(len(more))]
		}
		if !chosen[p] {
			chosen[p] = true
			ps = append(ps, randPat(r, p))
		}
	}
	// make sure overlapping patterns do not all carry identical settings
	if want(ps[0]).Type == want(ps[1]).Type && ps[0].Idle == ps[1].Idle && ps[0].Write == ps[1].Write {
		ps[1].InMem = !ps[0].InMem
		ps[1].Write = 0
		if !ps[1].InMem {
			ps[1].Write = writes[r.IntN(len(writes))]
		}
	}
	sc := setCase{Pats: ps}
	sc.Names = []string{s + "/" + rl + "/" + w, s + "/" + rl + "/" + w2, s + "/" + rl2 + "/" + w, s + "/" + rl2 + "/" + w2, s2 + "/" + rl + "/" + w, "zz/" + rl + "/" + w}

	perm := func() []pat {
		o := append([]pat{}, ps...)
		for i := len(o) - 1; i > 0; i-- {
			j := r.IntN(i + 1)
			o[i], o[j] = o[j], o[i]
		}
		return o
	}
	// re-registration histories: some patterns are first registered with other settings (or twice
	// with the same), the final settings come last
	for h := 0; h < 4; h++ {
		var st []step
		o := perm()
		var late []pat
		for _, p := range o {
			switch r.IntN(3) {
			case 0:
				alt := p
				switch r.IntN(4) {
				case 0: // only the type changes (same idle time)
					alt.InMem = !p.InMem
					alt.Write = 0
					if !alt.InMem {
						alt.Write = writes[r.IntN(len(writes))]
					}
				case 1: // only the idle time changes
					alt.Idle = p.Idle + 7
				case 2: // only the write interval changes (persistent), else the type
					if p.InMem {
						alt.InMem, alt.Write = false, writes[r.IntN(len(writes))]
					} else {
						alt.Write = p.Write + 3
					}
				default:
					alt = randPat(r, p.P)
				}
				st = append(st, step{"reg", alt})
				if r.IntN(4) == 0 { // a third registration in between
					st = append(st, step{"reg", randPat(r, p.P)})
				}
				late = append(late, p)
			case 1:
				st = append(st, step{"reg", p})
				late = append(late, p) // idempotent repeat
			default:
				st = append(st, step{"reg", p})
			}
		}
		for _, p := range late {
			st = append(st, step{"reg", p})
		}
		sc.Extra = append(sc.Extra, history{"rereg", st})
	}
	// deregistration histories: extra patterns come and go; a final pattern may be removed and
	// registered again; a never-registered pattern is deregistered
	for h := 0; h < 3; h++ {
		var st []step
		var extras []pat
		for _, p := range append(append([]string{}, cands...), more...) {
			if !chosen[p] && r.IntN(2) == 0 {
				extras = append(extras, randPat(r, p))
			}
		}
		o := perm()
		mix := append(append([]pat{}, o...), extras...)
		for i := len(mix) - 1; i > 0; i-- {
			j := r.IntN(i + 1)
			mix[i], mix[j] = mix[j], mix[i]
		}
		for _, p := range mix {
			st = append(st, step{"reg", p})
		}
		again := o[r.IntN(len(o))]
		if r.IntN(2) == 0 {
			st = append(st, step{"dereg", again}, step{"reg", again})
		}
		for _, p := range extras {
			st = append(st, step{"dereg", p})
		}
		st = append(st, step{"dereg", pat{P: "never/registered/*"}})
		sc.Extra = append(sc.Extra, history{"dereg", st})
	}
	return sc
}

func permutations(ps []pat) [][]pat {
	var out [][]pat
	var rec func(cur []pat, rest []pat)
	rec = func(cur, rest []pat) {
		if len(rest) == 0 {
			out = append(out, append([]pat{}, cur...))
			return
		}
		for i := range rest {
			nr := append(append([]pat{}, rest[:i]...), rest[i+1:]...)
			rec(append(cur, rest[i]), nr)
		}
	}
	rec(nil, ps)
	return out
}

// ---------------------------------------------------------------------------
// part 1: pure settings objects

type observer struct {
	c    *rig.Check
	root string
}

func (o *observer) fresh() settings.Settings {
	_ = os.Remove(filepath.Join(o.root, "settings", "settings.json"))
	return o.open()
}

func (o *observer) open() settings.Settings {
	_ = os.Setenv("HYDRAIDE_ROOT_PATH", o.root)
	return settings.New(1, 1000)
}

func apply(st settings.Settings, h history) (pc string) {
	defer func() {
		if p := recover(); p != nil {
			pc = fmt.Sprint(p)
		}
	}()
	for _, s := range h.Steps {
		switch s.Op {
		case "reg":
			var fss *settings.FileSystemSettings
			if !s.Pat.InMem {
				fss = &settings.FileSystemSettings{WriteIntervalSec: s.Pat.Write, MaxFileSizeByte: 8192}
			}
			st.RegisterPattern(name.Load(s.Pat.P), s.Pat.InMem, s.Pat.Idle, fss)
		case "dereg":
			st.DeregisterPattern(name.Load(s.Pat.P))
		}
	}
	return ""
}

// changed names what a re-registration changed (from an earlier registration a to the last b).
func changed(a, b result) string {
	var c []string
	if a.Type != b.Type {
		c = append(c, "type")
	}
	if a.Idle != b.Idle {
		c = append(c, "idle")
	}
	if a.Write != b.Write && a.Type == b.Type {
		c = append(c, "write-interval")
	}
	if len(c) == 0 {
		return "nothing"
	}
	return strings.Join(c, "+")
}

func specClass(best []string) string {
	if len(best) == 1 {
		return "strict-specificity"
	}
	return "equal-specificity-tie"
}

func (o *observer) runSet(sc setCase) (nontrivial bool) {
	c := o.c
	final := map[string]pat{}
	for _, p := range sc.Pats {
		final[p.P] = p
	}
	var hs []history
	for _, pm := range permutations(sc.Pats) {
		var st []step
		for _, p := range pm {
			st = append(st, step{"reg", p})
		}
		hs = append(hs, history{"perm", st})
	}
	hs = append(hs, sc.Extra...)

	type nameModel struct {
		matching, best []string
		class          string
	}
	models := map[string]nameModel{}
	for _, n := range sc.Names {
		var m nameModel
		minW := 99
		for p := range final {
			if matches(p, n) {
				m.matching = append(m.matching, p)
				if w := wildcards(p); w < minW {
					minW = w
				}
			}
		}
		sort.Strings(m.matching)
		for _, p := range m.matching {
			if wildcards(p) == minW {
				m.best = append(m.best, p)
			}
		}
		m.class = "no-match"
		if len(m.best) > 0 {
			m.class = specClass(m.best)
		}
		if len(m.matching) >= 2 {
			nontrivial = true
		}
		models[n] = m
	}

	// first winner seen per name over the whole set (all histories, live and reloaded)
	type seenAt struct {
		r     result
		where string
	}
	first := map[string]seenAt{}
	reported := map[string]bool{}
	viol := func(sig, what string, h history, n string) {
		if reported[sig+"|"+n] {
			return
		}
		reported[sig+"|"+n] = true
		c.Violate(sig, what, map[string]any{"set": sc, "history": h, "name": n})
	}

	for hi, h := range hs {
		// every pattern that was ever registered in this history, with every settings it was given
		given := map[string][]result{}
		for _, s := range h.Steps {
			if s.Op == "reg" {
				given[s.Pat.P] = append(given[s.Pat.P], want(s.Pat))
			}
		}
		st := o.fresh()
		if pc := apply(st, h); pc != "" {
			viol("register:panic:"+h.Kind, "RegisterPattern/DeregisterPattern panicked: "+pc, h, "")
			continue
		}
		c.Count("histories", 1)
		c.Seen("history_kinds", h.Kind)
		var live map[string]result
		for _, phase := range []string{"live", "reloaded"} {
			if phase == "reloaded" {
				st = o.open()
				c.Count("reloads", 1)
			}
			now := map[string]result{}
			def, pc := lookup(st, "verif-control/none/none") // never matches: the object's default
			if pc != "" {
				viol("lookup:panic", "GetBySwampName panicked: "+pc, h, "verif-control/none/none")
				continue
			}
			for _, n := range sc.Names {
				m := models[n]
				var r0 result
				for i := 0; i < lookupsPerName; i++ {
					r, pc := lookup(st, n)
					c.Count("lookups", 1)
					if pc != "" {
						viol("lookup:panic", "GetBySwampName panicked: "+pc, h, n)
						break
					}
					where := fmt.Sprintf("history %d (%s), %s, call %d", hi, h.Kind, phase, i)
					// (a) the applied pattern must be one that is registered and matches
					// isDefault: the answer names the swamp itself and carries the settings an
					// unrelated control name gets on this object, i.e. no registered pattern was applied
					// (the lookup name can coincide with a deregistered exact pattern).
					isDefault := r.Pattern == n && r.Type == def.Type && r.Idle == def.Idle && r.Write == def.Write
					if _, fin := final[r.Pattern]; fin {
						isDefault = false
					}
					if len(m.matching) == 0 {
						if _, reg := given[r.Pattern]; reg && !isDefault {
							cl := "registered-nonmatching"
							if _, fin := final[r.Pattern]; !fin {
								cl = "deregistered"
							}
							viol("resolve:"+cl+"-pattern-applied", fmt.Sprintf("%s: swamp %s matches no registered pattern but got %v (default on this object: %v)", where, n, r, def), h, n)
						}
					} else {
						fin, ok := final[r.Pattern]
						switch {
						case !ok && len(given[r.Pattern]) > 0 && !isDefault:
							viol("resolve:deregistered-pattern-applied", fmt.Sprintf("%s: swamp %s resolved to deregistered pattern %v", where, n, r), h, n)
						case !ok:
							viol("resolve:no-pattern-applied-although-one-matches", fmt.Sprintf("%s: swamp %s matches %v but got %v", where, n, m.matching, r), h, n)
						case !matches(r.Pattern, n):
							viol("resolve:registered-nonmatching-pattern-applied", fmt.Sprintf("%s: swamp %s resolved to %v which does not match it", where, n, r), h, n)
						default:
							// (b) the settings are those of the LAST registration of this pattern (a
							// re-registration that changes type, idle time or write interval takes effect at
							// runtime and in settings.json); in every history the last registration of a
							// pattern is the one of the final set.
							if w := want(fin); w != r {
								sig := "resolve:settings-differ-from-registered:" + phase
								for _, g := range given[r.Pattern] {
									if g == r {
										sig = "resolve:stale-settings-after-re-registration:" + changed(g, w) + ":" + phase
									}
								}
								viol(sig, fmt.Sprintf("%s: swamp %s got %v, the last registration of the pattern was %v (all registrations in order: %v)", where, n, r, w, given[r.Pattern]), h, n)
							}
							// (c) most specific wins
							if len(m.best) == 1 && r.Pattern != m.best[0] {
								viol("resolve:less-specific-pattern-won", fmt.Sprintf("%s: swamp %s matches %v, most specific is %s, got %v", where, n, m.matching, m.best[0], r), h, n)
							}
						}
					}
					// (d) determinism across the calls on one object
					if i == 0 {
						r0 = r
					} else if r != r0 {
						viol("resolve:unstable-across-calls:"+m.class, fmt.Sprintf("%s: swamp %s (matching %v) got %v, call 0 got %v", where, n, m.matching, r, r0), h, n)
					}
				}
				// (d) determinism across registration orders / histories: the same pattern wins (for
				// a name without a match: the same default applies)
				if phase == "live" {
					where := fmt.Sprintf("history %d (%s)", hi, h.Kind)
					if f, ok := first[n]; !ok {
						first[n] = seenAt{r0, where}
					} else if f.r.Pattern != r0.Pattern || (len(m.matching) == 0 && f.r != r0) {
						viol("resolve:differs-across-registration-histories:"+m.class, fmt.Sprintf("swamp %s (matching %v): %s got %v but %s got %v", n, m.matching, where, r0, f.where, f.r), h, n)
					}
				}
				now[n] = r0
			}
			if phase == "live" {
				live = now
			} else {
				for _, n := range sc.Names {
					if live[n] != now[n] {
						viol("resolve:differs-after-reload:"+models[n].class, fmt.Sprintf("history %d (%s): swamp %s (matching %v) got %v before and %v after reloading settings.json", hi, h.Kind, n, models[n].matching, live[n], now[n]), h, n)
					}
				}
			}
		}
	}

	// interleaved variant: lookups between the registry mutations (a summon resolves a swamp at
	// any time, not only after start-up registration). All histories of small sets, a sample of
	// the permutations of larger ones, and every re-registration / deregistration history.
	stride := 1
	if np := len(hs) - len(sc.Extra); np > 8 {
		stride = np / 8
	}
	for hi, h := range hs {
		if h.Kind == "perm" && hi%stride != 0 {
			continue
		}
		o.runInterleaved(sc, h, hi, viol)
	}
	return nontrivial
}

// modelAnswer is the documented resolution over a registry state (pattern -> last registration).
type modelAnswer struct {
	matching, best []string
}

func resolveModel(state map[string]pat, n string) modelAnswer {
	var m modelAnswer
	minW := 99
	for p := range state {
		if matches(p, n) {
			m.matching = append(m.matching, p)
			if w := wildcards(p); w < minW {
				minW = w
			}
		}
	}
	sort.Strings(m.matching)
	for _, p := range m.matching {
		if wildcards(p) == minW {
			m.best = append(m.best, p)
		}
	}
	return m
}

// runInterleaved applies one history step by step on one settings object and resolves a pool of
// names after EVERY step (names resolved earlier are resolved again). Each answer is compared with
// (a) the model over the registry state reached so far, (b) a fresh object that received the same
// steps without any lookup in between, (c) a new object reloaded from settings.json.
func (o *observer) runInterleaved(sc setCase, h history, hi int, viol func(sig, what string, h history, n string)) {
	c := o.c
	const control = "verif-control/none/none"
	poolSet := map[string]bool{}
	var pool []string
	add := func(n string) {
		if !poolSet[n] {
			poolSet[n] = true
			pool = append(pool, n)
		}
	}
	for _, n := range sc.Names {
		add(n)
	}
	for _, s := range h.Steps { // one concrete name per pattern of the history
		pp := parts(s.Pat.P)
		if pp[1] == "*" {
			pp[1] = "r9"
		}
		if pp[2] == "*" {
			pp[2] = "w9"
		}
		add(pp[0] + "/" + pp[1] + "/" + pp[2])
	}
	settingsFile := filepath.Join(o.root, "settings", "settings.json")

	a := o.fresh()
	state := map[string]pat{}
	ever := map[string]bool{}
	prev := map[string]result{}
	c.Count("interleaved_histories", 1)
	for si, s := range h.Steps {
		opClass := "deregister"
		if s.Op == "reg" {
			old, was := state[s.Pat.P]
			switch {
			case !was:
				opClass = "register-new-pattern"
			case want(old) == want(s.Pat):
				opClass = "re-register-unchanged"
			default:
				opClass = "re-register-changed"
			}
		} else if _, was := state[s.Pat.P]; !was {
			opClass = "deregister-unknown"
		}
		if pc := apply(a, history{Steps: []step{s}}); pc != "" {
			viol("register:panic:interleaved", "RegisterPattern/DeregisterPattern panicked: "+pc, h, "")
			return
		}
		if s.Op == "reg" {
			state[s.Pat.P] = s.Pat
			ever[s.Pat.P] = true
		} else {
			delete(state, s.Pat.P)
		}
		c.Count("interleaved_steps", 1)
		c.Seen("interleaved_step_classes", opClass)
		where := fmt.Sprintf("history %d (%s) after step %d (%s %s, %s)", hi, h.Kind, si, s.Op, s.Pat.P, opClass)

		ask := func(st settings.Settings, n string) (result, bool) {
			var r0 result
			for i := 0; i < 3; i++ {
				r, pc := lookup(st, n)
				c.Count("lookups", 1)
				if pc != "" {
					viol("lookup:panic", "GetBySwampName panicked: "+pc, h, n)
					return r, false
				}
				if i == 0 {
					r0 = r
				} else if r != r0 {
					viol("interleave:unstable-across-calls", fmt.Sprintf("%s: swamp %s got %v then %v", where, n, r0, r), h, n)
				}
			}
			return r0, true
		}

		// the object with interleaved lookups
		def, ok := ask(a, control)
		if !ok {
			return
		}
		live := map[string]result{}
		for _, n := range pool {
			r, ok := ask(a, n)
			if !ok {
				return
			}
			live[n] = r
			m := resolveModel(state, n)
			good := false
			if len(m.best) == 0 {
				// no registered pattern matches: the object's default, never a pattern's settings
				good = !ever[r.Pattern] || (r.Pattern == n && r.Type == def.Type && r.Idle == def.Idle && r.Write == def.Write)
				if _, reg := state[r.Pattern]; reg {
					good = false
				}
			} else {
				for _, b := range m.best {
					if r == want(state[b]) {
						good = true
					}
				}
			}
			if !good {
				kind := "wrong-answer"
				if p, had := prev[n]; had && p == r {
					kind = "stale-answer" // exactly what this name got before the step
				}
				viol("interleave:"+kind+"-after:"+opClass, fmt.Sprintf("%s: swamp %s matches %v, most specific %v, but the object answered %v (answer before the step: %v)", where, n, m.matching, m.best, r, prev[n]), h, n)
			}
		}
		for n, r := range live {
			prev[n] = r
		}

		// (c) reload from the settings file
		saved, rerr := os.ReadFile(settingsFile)
		re := o.open()
		for _, n := range pool {
			r, ok := ask(re, n)
			if ok && r != live[n] {
				viol("interleave:differs-after-reload-after:"+opClass, fmt.Sprintf("%s: swamp %s: running object %v, object reloaded from settings.json %v", where, n, live[n], r), h, n)
			}
		}
		// (b) a fresh object with the same steps and no lookups in between
		b := o.fresh()
		if pc := apply(b, history{Steps: h.Steps[:si+1]}); pc == "" {
			for _, n := range pool {
				r, ok := ask(b, n)
				if ok && r != live[n] {
					viol("interleave:differs-from-object-without-lookups-after:"+opClass, fmt.Sprintf("%s: swamp %s: object with interleaved lookups %v, fresh object with the same registrations %v", where, n, live[n], r), h, n)
				}
			}
		}
		// put the running object's file back (b rewrote it)
		if rerr == nil {
			_ = os.WriteFile(settingsFile, saved, 0o644)
		} else {
			_ = os.Remove(settingsFile)
		}
	}
}

// ---------------------------------------------------------------------------
// part 2: end to end through the gateway

type e2eCase struct {
	Pre    []pat  `json:"pre,omitempty"` // earlier registrations of some of the patterns (other type, same idle), registered first
	Pats   []pat  `json:"pats"`          // registration order; the last registration of every pattern
	Swamp  string `json:"swamp"`
	Rounds int    `json:"rounds"`
}

func genE2E(c *rig.Check, idx int) e2eCase {
	r := c.Rand(5_000_000 + idx)
	s := "e" + fmt.Sprint(idx%7)
	cands := []string{s + "/r/w", s + "/r/*", s + "/*/w", s + "/*/*"}
	k := 2 + r.IntN(3)
	o := r.Perm(len(cands))[:k]
	var ps []pat
	for i, ci := range o {
		p := pat{P: cands[ci], InMem: i%2 == r.IntN(2), Idle: 30}
		ps = append(ps, p)
	}
	// at least one in-memory and one persistent pattern
	ps[0].InMem = !ps[1].InMem
	for i := range ps {
		if !ps[i].InMem {
			ps[i].Write = 1
		}
	}
	ec := e2eCase{Pats: ps, Swamp: s + "/r/w", Rounds: 12}
	for _, p := range ps {
		if r.IntN(2) == 0 {
			q := pat{P: p.P, InMem: !p.InMem, Idle: p.Idle}
			if !q.InMem {
				q.Write = 1
			}
			ec.Pre = append(ec.Pre, q)
		}
	}
	return ec
}

func (o *observer) runE2E(t *testing.T, ec e2eCase) {
	c := o.c
	root := rig.TempRoot("c21e")
	defer rig.RemoveAll(root)
	var matching, best []string
	minW := 99
	types := map[string]bool{}
	for _, p := range ec.Pats {
		if matches(p.P, ec.Swamp) {
			matching = append(matching, p.P)
			if w := wildcards(p.P); w < minW {
				minW = w
			}
		}
	}
	for _, p := range ec.Pats {
		if matches(p.P, ec.Swamp) && wildcards(p.P) == minW {
			best = append(best, p.P)
			types[p.P] = !p.InMem
		}
	}
	var obs []bool // file present per round
	var notes []string
	incon := ""
	synctest.Test(t, func(t *testing.T) {
		ctx := context.Background()
		for boot := 0; boot < 2 && incon == ""; boot++ {
			r := rig.New(rig.Options{Root: root})
			if boot == 0 {
				for _, p := range append(append([]pat{}, ec.Pre...), ec.Pats...) {
					r.Register(p.P, p.InMem, p.Idle, p.Write)
				}
			}
			hyd := r.HydPath(ec.Swamp)
			for round := 0; round < ec.Rounds; round++ {
				v := fmt.Sprintf("v%d-%d", boot, round)
				_, err := r.GW.Set(ctx, &hydrapb.SetRequest{Swamps: []*hydrapb.SwampRequest{{IslandID: rig.Island(ec.Swamp), SwampName: ec.Swamp, CreateIfNotExist: true, Overwrite: true,
					KeyValues: []*hydrapb.KeyValuePair{{Key: "k", StringVal: &v}}}}})
				if err != nil {
					incon = "Set failed: " + err.Error()
					break
				}
				time.Sleep(5 * time.Second) // write interval is 1 s, idle 30 s
				_, serr := os.Stat(hyd)
				obs = append(obs, serr == nil)
				notes = append(notes, fmt.Sprintf("boot %d round %d: hyd=%v", boot, round, serr == nil))
				c.Count("e2e_summons", 1)
				if _, err := r.GW.Destroy(ctx, &hydrapb.DestroyRequest{IslandID: rig.Island(ec.Swamp), SwampName: ec.Swamp}); err != nil {
					incon = "Destroy failed: " + err.Error()
					break
				}
				time.Sleep(2 * time.Second)
				if _, serr := os.Stat(hyd); serr == nil {
					incon = "the .hyd file survived Destroy"
					break
				}
				if r.Active() != 0 {
					incon = "swamp still active after Destroy"
					break
				}
			}
			r.Stop()
			time.Sleep(2 * time.Minute)
		}
	})
	if incon != "" {
		c.Inconclusive("e2e: " + incon)
		return
	}
	class := specClass(best)
	for i := 1; i < len(obs); i++ {
		if obs[i] != obs[0] {
			c.Violate("e2e:persistence-flips-between-summons:"+class, fmt.Sprintf("swamp %s (matching %v): .hyd file presence over the summons %v", ec.Swamp, matching, obs), map[string]any{"e2e": ec, "rounds": notes})
			return
		}
	}
	// the type observed must be the last registered type of a most specific pattern
	if len(obs) == 0 {
		return
	}
	allowed := false
	for _, p := range best {
		if types[p] == obs[0] {
			allowed = true
		}
	}
	if !allowed {
		sig := "e2e:less-specific-pattern-won"
		for _, q := range ec.Pre {
			for _, p := range best {
				if q.P == p && !q.InMem == obs[0] {
					sig = "e2e:stale-type-after-re-registration"
				}
			}
		}
		c.Violate(sig, fmt.Sprintf("swamp %s: most specific pattern(s) %v last registered persistent=%v but .hyd present=%v on all summons (earlier registrations: %v)", ec.Swamp, best, types, obs[0], ec.Pre), map[string]any{"e2e": ec, "rounds": notes})
	}
}

// ---------------------------------------------------------------------------

type shard struct {
	SetFrom, SetTo int
	E2EFrom, E2ETo int
}

func TestCheck(t *testing.T) {
	c := rig.NewCheck(t, "C21", "exploration")
	defer c.Finish()
	c.Rule = "set = 2..5 distinct patterns (>= 2 of them generalisations of one target name: exact, s/r/*, s/*/w, s/*/*; the rest neighbours) with random settings (in-memory|persistent, idle, write interval), 6 lookup names (target + neighbours + non-matching); per set: every permutation of the registrations + 4 re-registration histories (earlier registrations that differ in exactly the type, the idle time or the write interval, or in everything; the last registration of each pattern is the final one) + 3 deregistration histories, each on a fresh settings object and again on a new object reloaded from settings.json, 64 lookups per (object, name); e2e case = overlapping in-memory/persistent patterns registered through the gateway, about half of them after an earlier registration with the other type and the same idle time, 12 write/observe/destroy rounds before and 12 after a restart; non-trivial = at least one lookup name matches >= 2 registered patterns; distinct = distinct set JSON"
	c.Assumptions = []string{
		"pattern forms: whole-segment '*' in the realm and/or swamp position with a literal sanctuary (the forms the property names and the repository uses); a '*' sanctuary ('technically possible, not recommended' in the SDK comment) and partial wildcards are not generated",
		"a pattern matches a name when the sanctuary is equal and realm/swamp are equal or '*'; specificity = number of wildcards; among equally specific matching patterns any may win, but always the same one (across calls, registration orders, re-registration/deregistration histories and reloads)",
		"registering an already registered pattern again replaces its settings (the behaviour of the engine: clients re-register their patterns at every start and a changed type, idle time or write interval must take effect): lookups return the LAST registered type / idle / write interval of the winning pattern, at runtime and after the reload; registration order of different patterns is irrelevant",
		"compared settings = those the statement names: type, close-after-idle, write interval (write interval only for persistent patterns); MaxFileSize (deprecated) and the engine flag are not compared",
		"a name that matches no registered pattern must not receive a registered pattern's settings; what the default is is not checked, only that it is stable",
		"lookups must not influence later answers: after every single RegisterPattern/DeregisterPattern step a pool of names (including names resolved before the step) is resolved and must equal the model over the registry reached so far, a fresh object that got the same steps without lookups, and an object reloaded from settings.json (interleaved variant: all histories of sets with <= 8 permutations, else 8 permutations, plus every re-registration/deregistration history; 3 lookups per name and object)",
		"e2e: persistent means a .hyd file exists 5 virtual seconds after the write (write interval 1 s), in-memory means it does not; Destroy is used to reset between summons, a failing reset makes the case inconclusive",
	}
	c.MinNontrivial = 20

	if p := c.ReplayPath(); p != "" {
		var w struct {
			Witness struct {
				Set *setCase `json:"set"`
				E2E *e2eCase `json:"e2e"`
			} `json:"witness"`
		}
		rig.ReadJSON(p, &w)
		root := rig.TempRoot("c21")
		defer rig.RemoveAll(root)
		o := &observer{c: c, root: root}
		if w.Witness.Set != nil {
			c.Case(rig.Dump(w.Witness.Set), o.runSet(*w.Witness.Set))
		}
		if w.Witness.E2E != nil {
			o.runE2E(t, *w.Witness.E2E)
			c.Case(rig.Dump(w.Witness.E2E), true)
		}
		return
	}

	if c.IsChild() {
		var sh shard
		c.ChildSpec(&sh)
		root := rig.TempRoot("c21")
		defer rig.RemoveAll(root)
		o := &observer{c: c, root: root}
		for i := sh.SetFrom; i < sh.SetTo; i++ {
			sc := genSet(c, i)
			nt := o.runSet(sc)
			c.Case(rig.Dump(sc), nt)
			c.Sample(sc.Pats)
			c.Count("sets", 1)
		}
		for i := sh.E2EFrom; i < sh.E2ETo; i++ {
			ec := genE2E(c, i)
			o.runE2E(t, ec)
			c.Case(rig.Dump(ec), true)
			c.Count("e2e_cases", 1)
		}
		return
	}

	nSets := c.N(300, 10000)
	nE2E := c.N(32, 640)
	const shards = 16
	var specs []any
	for s := 0; s < shards; s++ {
		specs = append(specs, shard{SetFrom: nSets * s / shards, SetTo: nSets * (s + 1) / shards, E2EFrom: nE2E * s / shards, E2ETo: nE2E * (s + 1) / shards})
	}
	for _, r := range c.Fanout(specs, rig.FanoutOpts{Par: 16, Timeout: 30 * time.Minute}) {
		switch {
		case r.TimedOut:
			c.Inconclusive(fmt.Sprintf("child %d timed out (log %s)", r.Index, r.LogPath))
		case r.NoPartial:
			c.Inconclusive(fmt.Sprintf("child %d died without a result: %v %v (log %s)", r.Index, r.ExitErr, r.Fatal, r.LogPath))
		}
	}
}
